"""C05 -- batching, padding and ordering are transparent (row-discipline clauses decidable from the source)."""
from __future__ import annotations

import ast
import re

from ..exprs import NotConst, int_eval
from ..guards import controlling
from ..loader import AnalysisError, call_name, callee_attr, calls_in, norm, short

LEVEL = "other"
EXPLANATION = (
    "R1 representative-row rule: whenever a per-molecule quantity (nHeavy, nHydro, nSuperHeavy, norb, nocc, species) is read at row 0 "
    "and used for the whole batch, the read must be justified by a uniformity fact about that same quantity -- established by a guard "
    "in the function (unique().numel()==1, all(T == T[0]), torch.equal(species, species[0]...)) or, interprocedurally, at every call "
    "site on every call chain from the package's entry points (requirements propagate up the resolved call graph until a guard "
    "discharges them; identical species discharge the composition quantities but not nocc, which also depends on the charge). R2 "
    "spin-flattening discipline: where a (B, 2, N, N) tensor is flattened to (2B, N, N), per-molecule vectors are expanded with "
    "repeat_interleave(2) (row order m0a, m0b, m1a, ...), never repeat(2)/cat. R3 padding-mask discipline in the fractional-occupation "
    "solver: every occupation vector that is reduced over orbitals or enters the density is the product with the valid-orbital mask. "
    "R4 index arithmetic of Parser.forward: maskd / mask / mask_l / atom_molid / pair_molid formulas equal m*S^2 + i*S + j (and "
    "transposes) on an exhaustive small-integer domain; idxi/idxj are compacted through the inverse of real_atoms. "
    "Numerical equality of alone-vs-batched results is not decided."
)
ASSUMPTIONS = [
    "per-molecule quantities are recognised by name (nHeavy/nheavyatom/nho, nHydro/nH, nSuperHeavy, norb/norb_batch, nocc/nocc_batch/Nocc, species)",
    "callees are resolved by simple name / attribute name inside the package (no dynamic dispatch on these helpers)",
]
TRUSTED = ["guard extraction (sa.guards)", "tiny integer evaluator (sa.exprs.int_eval)"]

KIND = [
    (re.compile(r"^(nHeavy|nheavyatom|nho|nHeavy_)$"), "nHeavy"),
    (re.compile(r"^(nHydro|nH|nHyd)$"), "nHydro"),
    (re.compile(r"^(nSuperHeavy)$"), "nSuperHeavy"),
    (re.compile(r"^(norb|norb_batch)$"), "norb"),
    (re.compile(r"^(nocc|nocc_batch|Nocc)$"), "nocc"),
    (re.compile(r"^(species)$"), "species"),
    (re.compile(r"^(active_states?|_active_states)$"), "active_state"),
]
# uniform(species) implies uniformity of everything that is a function of the species row
IMPLIED_BY_SPECIES = {"nHeavy", "nHydro", "nSuperHeavy", "norb", "species"}

ENTRY_PREFIXES = ("Energy.", "Force.", "Electronic_Structure.", "Molecular_Dynamics", "XL_BOMD", "KSA_XL_BOMD", "EnergyXL.", "ForceXL.", "Hamiltonian.", "NonadiabaticDynamics",
                  "Nonadiabatic", "Geometry_Optimization")

# inventoried exceptions: (file, function, kind) -> reason
REP_OK = {
}

# protocol discharges: callers whose batches are known uniform because an earlier phase of the same run rejects anything else.
# Both were confirmed at run time on [H2CO, NH3]: SurfaceHoppingDynamics.run and XL_ESMD.run raise NotImplementedError from Energy.forward
# (excited-state analytical-gradient branch `if not all_same_mols: raise`) before any of these helpers is reached; same species with
# different charges is rejected by the nocc guard of rcis_batch.
PROTOCOL_CALLERS = (
    ("seqm/NonadiabaticDynamics.py", "", "every nonadiabatic step first evaluates excited-state analytical gradients through Energy.forward, which raises unless the batch is uniform"),
    ("seqm/dynamics/tdc_hamiltonian_fd.py", "", "only reached from the nonadiabatic drivers (see above)"),
)
PROTOCOL_ATOMS = {
    "self.xlesmd": "XL-ESMD is initialised through the regular excited-state analytical-gradient path of Energy.forward, which raises unless the batch is uniform",
}


def kind_of(expr):
    """canonical per-molecule quantity named by `expr` (Name or Attribute), or None"""
    if isinstance(expr, ast.Attribute):
        ident = expr.attr
    elif isinstance(expr, ast.Name):
        ident = expr.id
    else:
        return None
    for rx, k in KIND:
        if rx.match(ident):
            return k
    return None


def _defs(func):
    d = {}
    for st in ast.walk(func):
        if isinstance(st, ast.Assign) and len(st.targets) == 1:
            t = st.targets[0]
            if isinstance(t, ast.Name):
                d.setdefault(t.id, []).append(st.value)
            elif isinstance(t, ast.Tuple) and isinstance(st.value, ast.Tuple) and len(t.elts) == len(st.value.elts):
                for a, b in zip(t.elts, st.value.elts):
                    if isinstance(a, ast.Name):
                        d.setdefault(a.id, []).append(b)
    return d


def uniform_facts(test, polarity, defs, depth=0):
    """set of kinds known uniform when `test` evaluates to `polarity`"""
    out = set()
    if depth > 4:
        return out
    if isinstance(test, ast.UnaryOp) and isinstance(test.op, ast.Not):
        return uniform_facts(test.operand, not polarity, defs, depth + 1)
    if isinstance(test, ast.BoolOp):
        if isinstance(test.op, ast.And) and polarity:
            for v in test.values:
                out |= uniform_facts(v, True, defs, depth + 1)
        elif isinstance(test.op, ast.Or) and not polarity:
            for v in test.values:
                out |= uniform_facts(v, False, defs, depth + 1)
        return out
    if isinstance(test, ast.Name) and len(defs.get(test.id, [])) == 1:
        return uniform_facts(defs[test.id][0], polarity, defs, depth + 1)
    if isinstance(test, ast.Call) and (call_name(test) or "") == "bool" and test.args:
        return uniform_facts(test.args[0], polarity, defs, depth + 1)
    if not polarity:
        return out
    # U1: T.unique().numel() == 1 / len(T.unique()) == 1 / torch.unique(T).numel() == 1
    if isinstance(test, ast.Compare) and len(test.ops) == 1 and isinstance(test.ops[0], ast.Eq) and isinstance(test.comparators[0], ast.Constant) and test.comparators[0].value == 1:
        l = test.left
        inner = None
        if isinstance(l, ast.Call) and callee_attr(l) == "numel" and isinstance(l.func, ast.Attribute):
            inner = l.func.value
        elif isinstance(l, ast.Call) and (call_name(l) or "") == "len" and l.args:
            inner = l.args[0]
        if isinstance(inner, ast.Call):
            tgt = None
            if callee_attr(inner) == "unique" and isinstance(inner.func, ast.Attribute) and not (call_name(inner) or "").startswith("torch."):
                tgt = inner.func.value
            elif (call_name(inner) or "") == "torch.unique" and inner.args:
                tgt = inner.args[0]
            k = kind_of(tgt) if tgt is not None else None
            if k:
                out.add(k)
        return out
    # U2: torch.all(T == T[0]) / (T == T[0]).all()
    cmpn = None
    if isinstance(test, ast.Call) and (call_name(test) or "") in ("torch.all", "th.all") and test.args:
        cmpn = test.args[0]
    elif isinstance(test, ast.Call) and callee_attr(test) == "all" and isinstance(test.func, ast.Attribute):
        cmpn = test.func.value
    if isinstance(cmpn, ast.Compare) and len(cmpn.ops) == 1 and isinstance(cmpn.ops[0], ast.Eq):
        a, b = cmpn.left, cmpn.comparators[0]
        for x, y in ((a, b), (b, a)):
            if isinstance(y, ast.Subscript) and isinstance(y.slice, ast.Constant) and y.slice.value == 0 and norm(y.value) == norm(x):
                k = kind_of(x)
                if k:
                    out.add(k)
    # U3: torch.equal(S, S[0].expand_as(S))
    if isinstance(test, ast.Call) and (call_name(test) or "") == "torch.equal" and len(test.args) == 2:
        a, b = test.args
        if kind_of(a) and norm(b).replace(" ", "") == f"{norm(a)}[0].expand_as({norm(a)})":
            out.add(kind_of(a))
    return out


def close_facts(f):
    f = set(f)
    if "species" in f:
        f |= IMPLIED_BY_SPECIES
    if {"nHeavy", "nHydro"} <= f and "nSuperHeavy" in f:
        f.add("norb")
    return f


def facts_at(mod, node, func, defs):
    """uniformity facts that hold whenever `node` executes"""
    f = set()
    st = mod.enclosing_stmt(node)
    for atom, pol, src in controlling(mod, st, stop=func):
        f |= uniform_facts(atom, pol, defs)
        if pol and norm(atom) in PROTOCOL_ATOMS:
            f |= {"species", "nocc"}
    # the node may sit in the test of an `if` itself (e.g. `if X.shape[-1] == norb_batch[0]`): earlier-sibling guards are covered by controlling()
    # conditional expressions: a if T else b
    cur = node
    while cur is not None and cur is not st:
        par = mod.parents.get(cur)
        if isinstance(par, ast.IfExp):
            if cur is par.body:
                f |= uniform_facts(par.test, True, defs)
            elif cur is par.orelse:
                f |= uniform_facts(par.test, False, defs)
        if isinstance(par, ast.BoolOp) and isinstance(par.op, ast.And):
            idx = par.values.index(cur) if cur in par.values else -1
            for v in par.values[:max(idx, 0)]:
                f |= uniform_facts(v, True, defs)
        cur = par
    return close_facts(f)


def rep_uses(mod, func, qual):
    """[(node, kind)] for loads T[0] of per-molecule quantities in `func` (excluding the uniformity tests themselves)"""
    out = []
    for n in ast.walk(func):
        if not (isinstance(n, ast.Subscript) and isinstance(n.ctx, ast.Load) and isinstance(n.slice, ast.Constant) and n.slice.value == 0):
            continue
        if mod.qualname_of(n) != qual:
            continue
        k = kind_of(n.value)
        if not k:
            continue
        # skip occurrences inside T == T[0] / S[0].expand_as(S)
        par = mod.parents.get(n)
        if isinstance(par, ast.Compare) and any(norm(x) == norm(n.value) for x in [par.left] + par.comparators):
            continue
        if isinstance(par, ast.Attribute) and par.attr == "expand_as":
            continue
        out.append((n, k))
    return out


def check_spin_flatten(ctx, rid, floor=8):
    """spin-flattening discipline (shared with C04: UHF on mixed batches must use each molecule's own sizes)"""
    repo = ctx.repo
    mods = list(repo.modules("seqm"))
    n2 = 0
    for m in mods:
        for qual, func in m.functions.items():
            flat = [c for c in calls_in(func) if m.qualname_of(c) == qual and callee_attr(c) == "flatten" and
                    ({(kw.arg, norm(kw.value)) for kw in c.keywords} >= {("start_dim", "0"), ("end_dim", "1")} or [norm(a) for a in c.args] == ["0", "1"])]
            spin_branch = [n for n in ast.walk(func) if isinstance(n, ast.If) and norm(n.test).replace(" ", "") in ("x.dim()==4", "x0.dim()==4", "P.dim()==4", "F.dim()==4")]
            if not flat and not spin_branch:
                continue
            for n in ast.walk(func):
                if not isinstance(n, ast.Assign) or m.qualname_of(n) != qual:
                    continue
                v = n.value
                # `a, b = (x.<expansion> for x in (a, b))`: the expansion of the comprehension variable applies to every listed per-molecule vector
                if isinstance(v, (ast.GeneratorExp, ast.ListComp)) and len(v.generators) == 1 and isinstance(v.generators[0].target, ast.Name) \
                        and isinstance(v.generators[0].iter, (ast.Tuple, ast.List)) and v.generators[0].iter.elts \
                        and all(isinstance(e_, ast.Name) and kind_of(ast.Name(id=e_.id.split("__")[0], ctx=ast.Load())) in ("nHeavy", "nHydro", "nSuperHeavy", "norb") for e_ in v.generators[0].iter.elts):
                    var_ = v.generators[0].target.id
                    first_ = v.generators[0].iter.elts[0]

                    class _S(ast.NodeTransformer):
                        def visit_Name(s_, x_):
                            return ast.copy_location(ast.Name(id=first_.id.split("__")[0], ctx=ast.Load()), x_) if x_.id == var_ else x_
                    import copy as _copy
                    v = _S().visit(_copy.deepcopy(v.elt))
                    n = ast.copy_location(ast.Assign(targets=[ast.Name(id=first_.id.split("__")[0], ctx=ast.Store())], value=v, lineno=n.lineno), n)
                # look through shape-only wrappers: n.expand(2, -1).reshape(-1) is an expansion of n
                while isinstance(v, ast.Call) and isinstance(v.func, ast.Attribute) and v.func.attr in ("reshape", "view", "flatten", "contiguous", "clone", "to") \
                        and isinstance(v.func.value, ast.Call) and isinstance(v.func.value.func, ast.Attribute):
                    v = v.func.value
                if isinstance(v, ast.Call) and isinstance(v.func, ast.Attribute) and kind_of(v.func.value) in ("nHeavy", "nHydro", "nSuperHeavy", "norb") and kind_of(n.targets[0]):
                    at = v.func.attr
                    if at in ("repeat_interleave", "repeat", "tile", "expand"):
                        n2 += 1
                        ok_ = at == "repeat_interleave" and [norm(a) for a in v.args] == ["2"]
                        ctx.check(ok_, rid, m, n, qual, n, f"{norm(n.targets[0])} is expanded with repeat_interleave(2): rows (m0 alpha, m0 beta, m1 alpha, ...)",
                                  f"`{norm(n)}` expands the per-molecule vector as {at}({', '.join(norm(a) for a in v.args)}) but the spin-flattened matrices are ordered "
                                  f"(m0 alpha, m0 beta, m1 alpha, ...): in a mixed-size unrestricted batch matrices are packed / shifted with another molecule's sizes")
                if isinstance(v, ast.Call) and (call_name(v) or "") in ("torch.cat", "torch.stack") and v.args and isinstance(v.args[0], (ast.List, ast.Tuple)) and \
                        len(v.args[0].elts) == 2 and norm(v.args[0].elts[0]) == norm(v.args[0].elts[1]) and kind_of(v.args[0].elts[0]) in ("nHeavy", "nHydro", "nSuperHeavy", "norb"):
                    n2 += 1
                    ctx.fail(rid, m, n, qual, n, f"`{norm(n)}` doubles the per-molecule vector block-wise (m0, m1, ..., m0, m1, ...) while spin-flattened matrices are interleaved")
    # by value: the statements of every spin branch (`if x.dim() == 4:`) are interpreted (sa.npsym) with concrete per-molecule vectors; whatever the spelling (helper with
    # star-arguments, comprehension, tuple assignment), a vector that comes out with one entry per spin block must be the interleaved one (m0, m0, m1, m1, ...)
    import numpy as np
    from ..npsym import NpSym, _Frame, Raised
    for m in mods:
        for qual, func in m.functions.items():
            for br in [n for n in ast.walk(func) if isinstance(n, ast.If) and m.qualname_of(n) == qual and norm(n.test).replace(" ", "").endswith(".dim()==4")]:
                tname = norm(br.test).split(".")[0]
                cands = {}
                names = [a.arg for a in func.args.args + func.args.kwonlyargs] + sorted({x.id for x in ast.walk(func) if isinstance(x, ast.Name) and isinstance(x.ctx, ast.Store)})
                for i_, nm in enumerate(dict.fromkeys(names)):
                    if kind_of(ast.Name(id=nm.split("__")[0], ctx=ast.Load())) in ("nHeavy", "nHydro", "nSuperHeavy", "norb"):
                        cands[nm] = np.array([1, 2, 3], dtype=np.int64) + 10 * (i_ + 1)
                if not cands:
                    continue
                env = dict(cands)
                env[tname] = np.zeros((3, 2, 2, 2), dtype=object)
                fr = _Frame(NpSym(repo), m, env)
                for st in br.body:
                    try:
                        fr.stmt(st)
                    except (AnalysisError, Raised):
                        continue
                params_ = {a.arg for a in func.args.args + func.args.kwonlyargs}
                for nm, orig in cands.items():
                    if nm not in params_:
                        continue        # locals derived inside the branch (norb = 4 nHeavy + nH) are functions of the expanded inputs
                    v = fr.env.get(nm)
                    if isinstance(v, np.ndarray) and v.shape == (6,) and v.dtype != object:
                        n2 += 1
                        ctx.check(bool((v == np.repeat(orig, 2)).all()), rid, m, br, qual, f"spin expansion of {nm}",
                                  f"{qual}: `{nm}` comes out of the spin branch interleaved (m0, m0, m1, m1, ...) like the spin-flattened matrices (interpreted)",
                                  f"{qual}: in the spin branch `{nm}` = {orig.tolist()} becomes {v.tolist()} but the spin-flattened matrices are ordered (m0 alpha, m0 beta, m1 alpha, ...): "
                                  f"in a mixed-size unrestricted batch matrices are packed / shifted with another molecule's sizes")
    ctx.floor(rid, floor)



def check_rep_rows(ctx, rid, floor=20, only_files=None):
    """representative-row rule (shared with C03/C04: the SCF pipeline packs, diagonalises and unpacks with these sizes; with C08/C17: every
    trajectory's force is the gradient of its own active state)"""
    repo = ctx.repo
    mods = list(repo.modules("seqm"))
    fn_index = {}     # simple name -> [(mod, qual, func)]
    for m in mods:
        for qual, func in m.functions.items():
            fn_index.setdefault(qual.split(".")[-1], []).append((m, qual, func))
    need = {}         # (rel, qual) -> {kind: witness node}
    info = {}
    n_local = 0
    for m in mods:
        for qual, func in m.functions.items():
            uses = rep_uses(m, func, qual)
            if not uses:
                continue
            defs = _defs(func)
            info[(m.rel, qual)] = (m, func, defs)
            for node, k in uses:
                f = facts_at(m, node, func, defs)
                if k in f:
                    n_local += 1
                    ctx.ok(rid, f"{short(m.rel)}:{qual}", f"`{norm(node)}` is read under a local uniformity guard on {k}")
                else:
                    need.setdefault((m.rel, qual), {}).setdefault(k, node)
    # propagate requirements up the call graph
    callers = {}      # callee simple name -> [(mod, qual, func, call)]
    for m in mods:
        for qual, func in m.functions.items():
            for c in calls_in(func):
                if m.qualname_of(c) != qual:
                    continue
                nm = callee_attr(c) or (call_name(c) or "").split(".")[-1]
                if nm:
                    callers.setdefault(nm, []).append((m, qual, func, c))
    reported = set()
    work = [(key, k, [key]) for key, ks in need.items() for k in ks]
    seen = set()
    n_chain = 0
    while work:
        (rel, qual), k, chain = work.pop()
        if ((rel, qual), k) in seen:
            continue
        seen.add(((rel, qual), k))
        simple = qual.split(".")[-1]
        sites = [s for s in callers.get(simple, []) if not (s[0].rel == rel and s[1] == qual)]
        # ambiguous simple names: keep only callers that can mean this function (same module or importing module)
        sites = [s for s in sites if s[0].rel == rel or simple in s[0].imports or any(simple == (v[1] or "") for v in s[0].imports.values()) or "." in qual]
        origin = chain[0]
        wnode = need[origin][k]
        om = repo.mod(origin[0])
        if (rel, qual, k) in REP_OK or (origin[0], origin[1], k) in REP_OK:
            ctx.ok(rid, f"{short(origin[0])}:{origin[1]}", f"row-0 read of {k}: inventoried exception ({REP_OK.get((origin[0], origin[1], k)) or REP_OK.get((rel, qual, k))})")
            continue
        proto = [why for prel, pq, why in PROTOCOL_CALLERS if rel == prel and qual.startswith(pq)]
        if proto:
            ctx.ok(rid, f"{short(origin[0])}:{origin[1]}", f"`{norm(wnode)}` [{k}] reached via {qual}: protocol discharge ({proto[0]})")
            continue
        if not sites:
            if qual.startswith(ENTRY_PREFIXES):
                key = (origin, k)
                if key not in reported:
                    reported.add(key)
                    ctx.fail(rid, om, wnode, origin[1], f"{norm(wnode)} [{k}] via {' <- '.join(q for _, q in chain)}",
                             f"`{norm(wnode)}` takes row 0 of the per-molecule quantity {k} for the whole batch, and no uniformity guard on {k} exists on the call chain "
                             f"{' <- '.join(q for _, q in chain)}: in a batch whose molecules differ in {k} every other molecule is processed with molecule 0's value")
            else:
                ctx.ok(rid, f"{short(origin[0])}:{origin[1]}", f"`{norm(wnode)}` [{k}]: {qual} has no caller in the package (library helper with a documented uniform-batch precondition)", nontrivial=False)
            continue
        for cm, cq, cf, call in sites:
            cdefs = _defs(cf)
            f = facts_at(cm, call, cf, cdefs)
            # facts established earlier in the caller by an early-exit guard are included by controlling()
            if k in f:
                n_chain += 1
                ctx.ok(rid, f"{short(origin[0])}:{origin[1]}", f"`{norm(wnode)}` [{k}] is discharged at {short(cm.rel)}:{cq} (call of {simple} under a uniformity fact on {k})")
            else:
                if len(chain) >= 8:
                    ctx.fail(rid, om, wnode, origin[1], f"{norm(wnode)} [{k}]", f"requirement on {k} not discharged within 8 call levels")
                    continue
                work.append(((cm.rel, cq), k, chain + [(cm.rel, cq)]))
                need.setdefault((cm.rel, cq), {}).setdefault(k, wnode)
                # keep the original witness for reports
                need[(cm.rel, cq)][k] = wnode
                need.setdefault(origin, {})[k] = wnode
    ctx.floor(rid, floor)



def check_masked_occupations(ctx, rid):
    """fractional occupations are masked on padding orbitals (shared with C03: trace / charge of the fractional-occupation solver)"""
    repo = ctx.repo
    fq = repo.mod("seqm/seqm_functions/fermi_q.py")
    n3 = 0
    for qual, func in fq.functions.items():
        defs = _defs(func)
        maskdefs = [nm for nm, vs in defs.items() if any(isinstance(v, ast.Compare) and "norb" in norm(v) and "arange" in norm(defs.get(norm(v.left), [v.left])[0] if isinstance(v.left, ast.Name) else v.left) for v in vs)]
        # names holding a Fermi function value
        raw = set()
        for nm, vs in defs.items():
            for v in vs:
                t = norm(v)
                if isinstance(v, ast.Call) and ((call_name(v) or "") in ("torch.sigmoid",) or ("torch.exp" in t and "1.0 /" in t)):
                    raw.add(nm)
                elif isinstance(v, ast.BinOp) and isinstance(v.op, ast.Div) and "torch.exp" in t and "mu" in t:
                    raw.add(nm)
        if not raw:
            continue
        masks = set()
        for nm, vs in defs.items():
            for v in vs:
                if isinstance(v, ast.Compare) and "norb" in norm(v):
                    masks.add(nm)
        changed = True
        while changed:
            changed = False
            for nm, vs in defs.items():
                if nm not in masks and any(isinstance(v, ast.Call) and isinstance(v.func, ast.Attribute) and v.func.attr in ("to", "type", "float", "double") and
                                           isinstance(v.func.value, ast.Name) and v.func.value.id in masks for v in vs):
                    masks.add(nm)
                    changed = True
        masked = set()
        for nm, vs in defs.items():
            if vs and all(isinstance(v, ast.BinOp) and isinstance(v.op, ast.Mult) and
                          ((isinstance(v.left, ast.Name) and v.left.id in raw and isinstance(v.right, ast.Name) and v.right.id in masks) or
                           (isinstance(v.right, ast.Name) and v.right.id in raw and isinstance(v.left, ast.Name) and v.left.id in masks)) for v in vs if not (isinstance(v, ast.Constant) and v.value is None)):
                masked.add(nm)
        # every use of a raw occupation other than the masking product is a violation; a raw name that is itself used in sums is too
        for n in ast.walk(func):
            if isinstance(n, ast.Name) and isinstance(n.ctx, ast.Load) and n.id in raw and n.id not in masked:
                par = fq.parents.get(n)
                is_masking = isinstance(par, ast.BinOp) and isinstance(par.op, ast.Mult) and any(isinstance(x, ast.Name) and x.id in masks for x in (par.left, par.right))
                n3 += 1
                ctx.check(is_masking, rid, fq, n, qual, f"use of {n.id} in `{short(norm(fq.enclosing_stmt(n)))}`",
                          f"raw occupations {n.id} are only used to form the masked occupations",
                          f"the unmasked Fermi occupations `{n.id}` are used in `{short(norm(fq.enclosing_stmt(n)))}`: padding orbitals (reported with eigenvalue 0) receive "
                          f"occupation whenever the chemical potential is above 0, so the electron count and density of a padded molecule depend on the padding width")
        ctx.check(bool(masked), rid, fq, func, qual, "masked occupations", f"occupations {sorted(masked)} = raw * valid-orbital mask {sorted(masks)}",
                  f"{qual} computes Fermi occupations {sorted(raw)} but never multiplies them with the valid-orbital mask {sorted(masks) or '(none found)'}: padding orbitals are "
                  f"occupied whenever the chemical potential is above their (zero) eigenvalue")
        n3 += 1
    ctx.floor(rid, 2)



def run(ctx):
    repo = ctx.repo
    ctx.rule("R1", "representative-row rule: T[0] used for the whole batch only under a uniformity fact about T (local guard or on every call chain)")
    ctx.rule("R2", "spin flattening: (B,2,N,N) -> (2B,N,N) pairs with repeat_interleave(2) of per-molecule vectors")
    ctx.rule("R3", "fractional occupations are masked on padding orbitals before any reduction or density build")
    ctx.rule("R4", "Parser index arithmetic: counts, atom lists, block indices and aligned pair records equal their definitions on interpreted concrete padded batches")
    ctx.rule("R5", "per-molecule rows stay with their molecule downstream: output writers index whole-batch arrays by the molecule id (shared with C08-R6); only excited rows receive an excitation energy (shared with C14-R5)")
    from .c08 import check_writer_row_index
    from .c14 import _r5_excited_rows
    check_writer_row_index(ctx, repo.mod("seqm/MolecularDynamics.py"), "R5")
    _r5_excited_rows(ctx, repo, "R5")
    ctx.rule("R6", "padding transparency by value: outputs interpreted on a padded symbolic batch (dipole; density builders of every solver arm) contain no padding-slot coordinate, "
                   "no batch-mate symbol, and nothing on padding orbitals [EA+]")
    from ..assembly import check_charges_and_dipole
    try:
        check_charges_and_dipole(ctx, "R6", parts=("padding",))
    except AnalysisError as e_:
        ctx.note(f"dipole routine not interpretable ({str(e_)[:100]}); its padding transparency is not decided here")
    from ..densitymodel import check_density_builders
    try:
        check_density_builders(ctx, "R6")
    except AnalysisError as e_:
        ctx.note(f"density builders not interpretable ({str(e_)[:120]}); R1 / R3 (shape-based) decide alone")

    # ------------------------------------------------------------------ R1
    check_rep_rows(ctx, "R1")

    # ------------------------------------------------------------------ R2
    check_spin_flatten(ctx, "R2")

    # ------------------------------------------------------------------ R3
    check_masked_occupations(ctx, "R3")

    # ------------------------------------------------------------------ R4
    # decided by interpreting Parser.forward on concrete padded batches (sa.assembly.check_parser): independent of how the index formulas are spelled
    from ..assembly import check_parser
    check_parser(ctx, "R4", aspects=("index", "pairs"))
