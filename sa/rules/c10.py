"""C10 -- a run killed at any instant and resumed equals the uninterrupted run (structural clauses)."""
from __future__ import annotations

import ast
from typing import Dict, List, Optional, Set, Tuple

from ..cfg import build_cfg
from ..guards import atoms, controlling
from ..loader import AnalysisError, attr_chain, call_name, callee_attr, calls_in, dotted, names_in, norm, short, walk_no_nested
from ..mdconf import MD, NAD

LEVEL = "other"
EXPLANATION = (
    "Static decision of the crash-consistency protocol of the MD engines: R1 atomic checkpoint protocol (who-may-call on "
    "torch.save; temp file in the target directory; os.replace after torch.save on every path; every save_checkpoint reaches "
    "it); R2 on every CFG path of the step loop, all output writes of the iteration are followed by _flush_all before "
    "save_checkpoint, and the flush chain reaches every file handle; R3 checkpoint writer/reader key agreement per nested "
    "dictionary (a key read on resume but written by no writer is state silently not restored); R5 every sink opened on the "
    "resume path positions itself from step_offset (HDF5 cursors; XYZ frames truncated to the checkpointed step); R6 RNG state "
    "captured, restored after engine construction and before run, resumed run passes no seed, no draw uses a private "
    "generator; R7 absolute step labels: the loop runs range(step_offset, steps) and nothing adds step_offset to an already "
    "absolute index; R8 resume does not redo one-time initialisation (velocity draw, step-0 rows, XL history). "
    "Byte equality of HDF5 content and atomicity inside libhdf5 are not decided."
)
ASSUMPTIONS = [
    "os.replace on one file system is atomic; file.flush()/h5py flush hand data to the OS (survives process kill, not power loss)",
    "checkpoint dictionaries are only built in _build_checkpoint_base / save_checkpoint overrides and read in the functions enumerated by the key-flow analysis",
]
TRUSTED = ["typed-dictionary path inference for checkpoint keys (sa.rules.c10._KeyFlow)"]

WRITE_EVENTS = {"append_data", "append_vectors", "append_nonadiabatic", "write", "_do_integrator_step", "_output_to_screen"}


def _methods_named(mod, name):
    return [(q, f) for q, f in mod.functions.items() if q.split(".")[-1] == name and "<locals>" not in q]


def run(ctx):
    repo = ctx.repo
    md, nad = repo.mod(MD), repo.mod(NAD)
    ctx.rule("R1", "atomic checkpoint protocol: torch.save only to a temp file in the target directory, os.replace afterwards, reached by every save_checkpoint")
    ctx.rule("R2", "flush precedes checkpoint on every path; flush chain reaches every handle")
    ctx.rule("R3", "checkpoint writer/reader key agreement per nested dictionary")
    ctx.rule("R4", "loop-carried state of every engine's step is checkpointed and restored, or re-established by initialize(), or an inventoried scratch/report attribute")
    ctx.rule("R9", "the resumed engine is constructed with every recorded setting its class accepts (per engine type, on the path that type takes)")
    ctx.rule("R5", "every sink opened on the resume path positions itself from step_offset")
    ctx.rule("R6", "RNG pairing: captured, restored after construction and before run, no seed on resume, global generator only")
    ctx.rule("R7", "absolute step labels: loop over range(step_offset, steps); step_offset never added to an absolute index")
    ctx.rule("R8", "resume does not repeat one-time initialisation")
    ctx.rule("R10", "kill-and-resume by value: the interpreted run loop, writers, save_checkpoint and run_from_checkpoint of the base engine reproduce the uninterrupted "
                    "outputs from every kill point (files as written / as of their last flush / right after a checkpoint is published)")
    by_value = _r10_by_value(ctx, repo, md)
    ctx.rule("R11", "the extended-Lagrangian history is resumed in phase: the slot read on restart is the one written by the last completed step, for every history length "
                    "and every phase of the circular buffer (shared with C09-R3)")
    from .c09 import check_restart_read
    check_restart_read(ctx, md, "R11")
    _r1(ctx, repo, md, nad)
    # R2 / R5 / R7 / R8 are shape-based readings of what R10 decides by value for the base engine and the writers: when R10 holds, their findings and their "shape not
    # recognised" stops about code of seqm/MolecularDynamics.py are not reported (the engines of NonadiabaticDynamics.py are judged by the shape-based rules only)
    covered = {"R2", "R5", "R7", "R8"}
    if by_value:
        ctx.demote = lambda rid, rel, function, message: ("decided by value in R10" if rid in covered and rel == MD and not function.startswith(("XL_", "KSA_")) else None)

    def guarded(rid, fn, *a):
        try:
            fn(*a)
        except AnalysisError as e:
            if by_value and rid in covered and "NonadiabaticDynamics" not in str(e):
                ctx.note(f"{rid}: shape not recognised ({str(e)[:100]}); the base engine's behaviour is decided by value in R10")
                ctx.ok(rid, MD, "decided by value in R10 (shape-based reading not applicable to this spelling)", nontrivial=False)
            else:
                raise
    guarded("R2", _r2, ctx, md)
    _r4(ctx, repo)
    _r9_ctor_kwargs(ctx, repo)
    _r3(ctx, repo, md, nad)
    guarded("R5", _r5, ctx, md)
    _r6(ctx, repo, md, nad)
    guarded("R7", _r7, ctx, md, nad)
    guarded("R8", _r8, ctx, md, nad)
    ctx.demote = None


# ------------------------------------------------------------------------------------------ R1
def _r10_by_value(ctx, repo, md) -> bool:
    """True when the interpreted kill-and-resume scenarios could be run and all hold"""
    from .. import h5model
    try:
        res = h5model.interpreted_resume_runs(repo, all_crash_points=(ctx.tier == "thorough"))
        # the thermostatted engine goes through the same run loop with its own constructor arguments on resume
        res += [(t, ck, [f"(Molecular_Dynamics_Langevin) {m}" for m in msgs], n)
                for t, ck, msgs, n in h5model.interpreted_resume_runs(repo, cls_name="Molecular_Dynamics_Langevin", tables=h5model.RESUME_TABLES[:1])]
    except AnalysisError as e:
        ctx.note(f"R10: the run loop / writers / checkpoint routines could not be interpreted ({str(e)[:140]}); resume is judged by the shape-based rules R2, R5, R7, R8 only")
        ctx.ok("R10", MD, "not interpretable in this spelling: judged by the shape-based rules", nontrivial=False)
        return False
    good = True
    run = md.func("Molecular_Dynamics_Basic.run_from_checkpoint") if md.has_func("Molecular_Dynamics_Basic.run_from_checkpoint") else None
    for t, ck, msgs, n in res:
        pe, xe, d, c, v, f, td, molid, steps, exc = t
        what = (f"cadences print {pe} / xyz {xe} / data {d} / coordinates {c} / velocities {v} / forces {f} / tdm {td}, checkpoint every {ck}, {steps} steps, molecules {molid}"
                + (", excited states" if exc else ""))
        ctx.check(not msgs, "R10", md, run, "Molecular_Dynamics_Basic.run_from_checkpoint", f"scenario {what}",
                  f"{n} kill points: resumed outputs equal the uninterrupted run ({what})", (msgs[0] if msgs else "") + f" [{what}]")
        good = good and not msgs
    return good


def _r1(ctx, repo, md, nad):
    # who-may-call torch.save / pickle.dump in the package
    n_save = 0
    for m in repo.modules("seqm"):
        for c in calls_in(m.tree):
            cn = call_name(c) or ""
            if cn in ("torch.save", "pickle.dump", "np.save", "numpy.save") and m.rel in (MD, NAD):
                n_save += 1
                qn = m.qualname_of(c)
                ctx.check(qn.endswith("_atomic_save_checkpoint"), "R1", m, c, qn, c,
                          "serialisation call lives in _atomic_save_checkpoint",
                          f"`{short(c, 60)}` writes a checkpoint outside _atomic_save_checkpoint (not crash-atomic)")
    if n_save == 0:
        raise AnalysisError("no torch.save in MD modules: checkpoint writer anchor vanished")
    f = md.func("Molecular_Dynamics_Basic._atomic_save_checkpoint")
    params = [a.arg for a in f.args.args]
    path_p = params[-1]
    g = build_cfg(f)
    saves = [n.id for n in g.nodes if n.kind == "stmt" and any((call_name(c) or "") == "torch.save" for c in calls_in(n.stmt)) and n.stmt in _direct_stmts(f)]
    saves = [n.id for n in g.nodes if n.kind == "stmt" and any((call_name(c) or "") == "torch.save" for c in calls_in(n.stmt))]
    repl = [n.id for n in g.nodes if n.kind == "stmt" and any((call_name(c) or "") in ("os.replace", "os.rename") for c in calls_in(n.stmt))]
    if not saves or not repl:
        ctx.fail("R1", md, f, "_atomic_save_checkpoint", f.name, "temp-file + os.replace protocol not found in _atomic_save_checkpoint")
        return
    # temp name: assigned from tempfile.mkstemp / NamedTemporaryFile with dir derived from path
    tmp_names: Set[str] = set()
    dir_ok = False
    for st in ast.walk(f):
        if isinstance(st, ast.Assign) and isinstance(st.value, ast.Call) and (call_name(st.value) or "").startswith("tempfile."):
            for t in st.targets:
                tmp_names |= names_in(t)
            kws = {k.arg: k.value for k in st.value.keywords}
            d = kws.get("dir")
            if d is not None and path_p in names_in(d) and "dirname" in norm(d):
                dir_ok = True
            elif d is not None:
                # dir assigned earlier from dirname(path)
                for st2 in ast.walk(f):
                    if isinstance(st2, ast.Assign) and isinstance(d, ast.Name) and any(isinstance(t, ast.Name) and t.id == d.id for t in st2.targets) \
                            and path_p in names_in(st2.value) and "dirname" in norm(st2.value):
                        dir_ok = True
    ctx.check(dir_ok, "R1", md, f, "_atomic_save_checkpoint", "tempfile dir", "temp file is created in dirname(path) (same file system, rename is atomic)",
              "temporary checkpoint file is not created in the target's directory: os.replace may cross file systems / not be atomic")
    for s in saves:
        call = [c for c in calls_in(g.nodes[s].stmt) if call_name(c) == "torch.save"][0]
        tgt = call.args[1] if len(call.args) > 1 else None
        ok = tgt is not None and isinstance(tgt, ast.Name) and tgt.id in tmp_names and tgt.id != path_p
        ctx.check(ok, "R1", md, call, "_atomic_save_checkpoint", call, "torch.save targets the temp file, never the checkpoint path",
                  f"torch.save writes directly to `{norm(tgt)}` (a crash mid-write leaves a torn checkpoint)")
    for r in repl:
        call = [c for c in calls_in(g.nodes[r].stmt) if call_name(c) in ("os.replace", "os.rename")][0]
        ok_args = len(call.args) == 2 and isinstance(call.args[0], ast.Name) and call.args[0].id in tmp_names \
            and isinstance(call.args[1], ast.Name) and call.args[1].id == path_p
        ctx.check(ok_args and call_name(call) == "os.replace", "R1", md, call, "_atomic_save_checkpoint", call,
                  "os.replace(temp, path) publishes the checkpoint", f"`{short(call, 60)}` is not os.replace(<temp>, {path_p})")
        ctx.check(g.dominated_by_any(r, set(saves)), "R1", md, call, "_atomic_save_checkpoint", call,
                  "os.replace is reached only after torch.save returned", "os.replace can be reached without a completed torch.save")
    # the exceptional exits of torch.save (disk full, interrupt) must not reach os.replace: a finally-block publish would replace the
    # last good checkpoint by a torn temp file
    for s_ in saves:
        for b, lab in g.succ[s_]:
            if lab != "exc":
                continue
            after_exc = g.reachable(b) | {b}
            hit = [r for r in repl if r in after_exc]
            ctx.check(not hit, "R1", md, g.nodes[hit[0]].stmt if hit else g.nodes[s_].stmt, "_atomic_save_checkpoint", g.nodes[hit[0]].stmt if hit else "exception exit of torch.save",
                      "when torch.save raises, no path publishes the temp file",
                      "os.replace is reachable after torch.save raised (it sits in a finally / except path): a checkpoint write that fails half-way (disk full, quota, "
                      "KeyboardInterrupt) overwrites the last good checkpoint with a torn file")
    # no other write to `path`
    for c in calls_in(f):
        cn = call_name(c) or ""
        if cn in ("open", "shutil.copy", "shutil.move", "shutil.copyfile") and any(isinstance(a, ast.Name) and a.id == path_p for a in c.args):
            ctx.fail("R1", md, c, "_atomic_save_checkpoint", c, f"`{short(c, 60)}` touches the checkpoint path outside os.replace")
    # every save_checkpoint reaches the atomic writer on every normal path
    chain = {"_save_checkpoint_and_report", "_atomic_save_checkpoint"}
    n = 0
    for m in (md, nad):
        for q, fn in _methods_named(m, "save_checkpoint") + _methods_named(m, "_save_checkpoint_and_report"):
            n += 1
            gg = build_cfg(fn)
            hit = {x.id for x in gg.nodes if x.kind == "stmt" and any(callee_attr(c) in chain or
                   (callee_attr(c) == "save_checkpoint" and "super()" in norm(c.func)) for c in calls_in(x.stmt))}
            ok = bool(hit) and gg.must_pass(gg.entry, gg.exit_return, hit)
            ctx.check(ok, "R1", m, fn, q, fn.name, f"{q}: every normal path reaches the atomic writer",
                      f"{q}: some path returns without writing through _atomic_save_checkpoint")
    if n < 3:
        raise AnalysisError("save_checkpoint methods not found")


def _direct_stmts(f):
    return set(ast.walk(f))


# ------------------------------------------------------------------------------------------ R2
def _r2(ctx, md):
    f = md.func("Molecular_Dynamics_Basic.run")
    g = build_cfg(f)

    def has_call(node, names):
        p = node.payload()
        if p is None or node.kind in ("with",):
            return False
        if node.kind != "stmt":
            return False
        return any(callee_attr(c) in names for c in calls_in(p))

    saves = [n.id for n in g.nodes if has_call(n, {"save_checkpoint"})]
    flushes = {n.id for n in g.nodes if has_call(n, {"_flush_all"})}
    # a save_checkpoint that flushes on every path before it builds / publishes the checkpoint is itself a flush point
    sc = md.func("Molecular_Dynamics_Basic.save_checkpoint")
    gs = build_cfg(sc)
    inner_flush = {n.id for n in gs.nodes if n.kind == "stmt" and any(callee_attr(c) == "_flush_all" for c in calls_in(n.stmt))}
    publish = [n.id for n in gs.nodes if n.kind == "stmt" and any(callee_attr(c) in ("_save_checkpoint_and_report", "_atomic_save_checkpoint", "_build_checkpoint_base", "save")
                                                                  for c in calls_in(n.stmt))]
    if inner_flush and publish and all(gs.must_pass(gs.entry, p_, inner_flush) for p_ in publish):
        flushes |= set(saves)
        self_flushing = True
    else:
        self_flushing = False
    loops = [n.id for n in g.nodes if n.kind == "for" and "step_offset" in norm(n.expr)]
    if not saves or not loops:
        raise AnalysisError("run(): step loop or save_checkpoint call not found")
    head = loops[0]
    writes = [n.id for n in g.nodes if n.kind == "stmt" and any(
        (callee_attr(c) in WRITE_EVENTS and (callee_attr(c) != "write" or "_xyz_writer" in norm(c.func))) for c in calls_in(n.stmt))]
    for s in saves:
        st = g.nodes[s].stmt
        ctx.check(g.must_pass(head, s, flushes, labels_avoid={"exc"}), "R2", md, st, "Molecular_Dynamics_Basic.run", st,
                  "every path from the loop head to save_checkpoint passes _flush_all",
                  "save_checkpoint can be reached in an iteration without _flush_all: the checkpoint may claim rows that are not on disk")
        for w in writes:
            if w == s:
                continue
            if self_flushing:
                ctx.ok("R2", "Molecular_Dynamics_Basic.run", f"output event `{short(g.nodes[w].stmt, 50)}`: save_checkpoint flushes before it publishes")
                continue
            # from an output write, reach save without passing a flush and without starting a new iteration
            reach = g.reachable(w, avoid=flushes | {head}, labels_avoid={"exc"})
            ctx.check(s not in reach, "R2", md, g.nodes[w].stmt, "Molecular_Dynamics_Basic.run", g.nodes[w].stmt,
                      f"output event `{short(g.nodes[w].stmt, 50)}` is flushed before the checkpoint of the same iteration",
                      f"output written by `{short(g.nodes[w].stmt, 60)}` can reach save_checkpoint without an intervening _flush_all")
        # nothing is written between checkpoint and the end of the iteration
        after = g.reachable(s, avoid={head}, labels_avoid={"exc"})
        late = [w for w in writes if w in after]
        ctx.check(not late, "R2", md, st, "Molecular_Dynamics_Basic.run", st, "no output event after the checkpoint within the iteration",
                  f"output events after save_checkpoint in the same iteration: {[short(g.nodes[w].stmt, 40) for w in late]}")
    ctx.floor("R2", 6)
    # flush chain
    fa = md.func("Molecular_Dynamics_Basic._flush_all")
    targets = {norm(c.func.value) for c in calls_in(fa) if isinstance(c.func, ast.Attribute) and c.func.attr == "flush"}
    ctx.check({"self._h5_writer", "self._xyz_writer"} <= targets, "R2", md, fa, "Molecular_Dynamics_Basic._flush_all", fa.name,
              "_flush_all flushes both the HDF5 and the XYZ writer", f"_flush_all flushes only {sorted(targets)}")
    for clsname, coll in (("HDF5Writer", "handles"), ("XYZWriter", "files")):
        fl = md.func(f"{clsname}.flush")
        ok = False
        for loop in ast.walk(fl):
            if isinstance(loop, ast.For) and coll in norm(loop.iter):
                tv = names_in(loop.target)
                if any(isinstance(c.func, ast.Attribute) and c.func.attr == "flush" and isinstance(c.func.value, ast.Name) and c.func.value.id in tv
                       for c in calls_in(loop)):
                    ok = True
        ctx.check(ok, "R2", md, fl, f"{clsname}.flush", fl.name, f"{clsname}.flush flushes every open handle in self.{coll}",
                  f"{clsname}.flush does not flush every handle of self.{coll}")


# ------------------------------------------------------------------------------------------ R3
class _KeyFlow:
    """Infers which nested checkpoint dictionary ('path' of keys from the top-level dict) each
    dict-valued expression denotes, then collects keys written / read per path."""

    def __init__(self, repo, mods):
        self.repo, self.mods = repo, mods
        self.env: Dict[Tuple[str, str], Tuple[str, ...]] = {}  # (func qualname, var) -> path
        self.fields: Dict[str, Tuple[str, ...]] = {}  # instance field name -> path
        self.written: Dict[Tuple[str, ...], Dict[str, ast.AST]] = {}
        self.read: Dict[Tuple[str, ...], List[Tuple[str, ast.AST, object, str]]] = {}
        self.funcs = []
        for m in mods:
            for q, f in m.functions.items():
                if "<locals>" in q:
                    continue
                self.funcs.append((m, q, f))

    def kind(self, e, q) -> Optional[Tuple[str, ...]]:
        if isinstance(e, ast.Name):
            return self.env.get((q, e.id))
        if isinstance(e, ast.Subscript) and isinstance(e.slice, ast.Constant) and isinstance(e.slice.value, str):
            k = self.kind(e.value, q)
            return None if k is None else k + (e.slice.value,)
        if isinstance(e, ast.Call):
            cn = callee_attr(e)
            if cn == "get" and isinstance(e.func, ast.Attribute) and e.args and isinstance(e.args[0], ast.Constant):
                k = self.kind(e.func.value, q)
                return None if k is None else k + (e.args[0].value,)
            if cn == "load" and (call_name(e) or "") == "torch.load":
                return ()
            if cn == "_build_checkpoint_base":
                return ()
            if cn == "getattr" and len(e.args) >= 2 and isinstance(e.args[1], ast.Constant):
                return self.fields.get(e.args[1].value)
            if cn == "dict" and len(e.args) == 1:
                return self.kind(e.args[0], q)
        if isinstance(e, ast.Attribute):
            return self.fields.get(e.attr)
        if isinstance(e, ast.BoolOp) and isinstance(e.op, ast.Or):
            for v in e.values:
                k = self.kind(v, q)
                if k is not None:
                    return k
        if isinstance(e, ast.IfExp):
            return self.kind(e.body, q) or self.kind(e.orelse, q)
        return None

    def solve(self):
        # seeds: parameters named ckpt are the top-level dict
        for m, q, f in self.funcs:
            for a in f.args.args + f.args.kwonlyargs:
                if a.arg == "ckpt":
                    self.env[(q, a.arg)] = ()
        changed = True
        rounds = 0
        while changed and rounds < 12:
            changed = False
            rounds += 1
            for m, q, f in self.funcs:
                for st in walk_no_nested(f):
                    if isinstance(st, ast.Assign):
                        k = self.kind(st.value, q)
                        for t in st.targets:
                            if isinstance(t, ast.Name) and k is not None and self.env.get((q, t.id)) != k:
                                self.env[(q, t.id)] = k
                                changed = True
                            elif isinstance(t, ast.Attribute) and k is not None and self.fields.get(t.attr) != k:
                                self.fields[t.attr] = k
                                changed = True
                            elif isinstance(t, ast.Tuple) and isinstance(st.value, ast.Call) and callee_attr(st.value) == "_load_checkpoint_base":
                                e0 = t.elts[0]
                                if isinstance(e0, ast.Name) and self.env.get((q, e0.id)) != ():
                                    self.env[(q, e0.id)] = ()
                                    changed = True
                            # X[key] = Name  =>  Name denotes path(X)+(key,)
                            if isinstance(t, ast.Subscript) and isinstance(t.slice, ast.Constant) and isinstance(st.value, ast.Name):
                                kx = self.kind(t.value, q)
                                if kx is not None and self.env.get((q, st.value.id)) != kx + (t.slice.value,):
                                    self.env[(q, st.value.id)] = kx + (t.slice.value,)
                                    changed = True
                    # dict literals {key: Name} whose own path is known
                    if isinstance(st, (ast.Return, ast.Assign, ast.Expr)):
                        for d, kd in self._dict_literals(st, q):
                            for kk, vv in zip(d.keys, d.values):
                                if isinstance(kk, ast.Constant) and isinstance(vv, ast.Name) and kd is not None:
                                    if self.env.get((q, vv.id)) != kd + (kk.value,):
                                        self.env[(q, vv.id)] = kd + (kk.value,)
                                        changed = True
                    # calls: bind callee parameters from argument kinds
                    if isinstance(st, ast.Call):
                        cn = callee_attr(st)
                        for m2, q2, f2 in self.funcs:
                            if q2.split(".")[-1] == cn:
                                ps = [a.arg for a in f2.args.args if a.arg not in ("self", "cls")]
                                for i, a in enumerate(st.args):
                                    if i < len(ps):
                                        k = self.kind(a, q)
                                        if k is not None and self.env.get((q2, ps[i])) != k:
                                            self.env[(q2, ps[i])] = k
                                            changed = True
        # collect
        for m, q, f in self.funcs:
            for st in walk_no_nested(f):
                if isinstance(st, (ast.Return, ast.Assign, ast.Expr)):
                    for d, kd in self._dict_literals(st, q):
                        if kd is not None:
                            for kk in d.keys:
                                if isinstance(kk, ast.Constant) and isinstance(kk.value, str):
                                    self.written.setdefault(kd, {})[kk.value] = kk
                if isinstance(st, ast.Assign):
                    for t in st.targets:
                        if isinstance(t, ast.Subscript) and isinstance(t.slice, ast.Constant) and isinstance(t.slice.value, str):
                            kx = self.kind(t.value, q)
                            if kx is not None:
                                self.written.setdefault(kx, {})[t.slice.value] = t
                if isinstance(st, ast.Call) and callee_attr(st) == "update" and isinstance(st.func, ast.Attribute):
                    kx = self.kind(st.func.value, q)
                    if kx is not None:
                        for k in st.keywords:
                            if k.arg:
                                self.written.setdefault(kx, {})[k.arg] = st
                # reads
                if isinstance(st, ast.Subscript) and isinstance(st.ctx, ast.Load) and isinstance(st.slice, ast.Constant) \
                        and isinstance(st.slice.value, str):
                    kx = self.kind(st.value, q)
                    if kx is not None:
                        self.read.setdefault(kx, []).append((st.slice.value, st, m, q))
                if isinstance(st, ast.Call) and callee_attr(st) == "get" and isinstance(st.func, ast.Attribute) and st.args \
                        and isinstance(st.args[0], ast.Constant) and isinstance(st.args[0].value, str):
                    kx = self.kind(st.func.value, q)
                    if kx is not None:
                        self.read.setdefault(kx, []).append((st.args[0].value, st, m, q))
                if isinstance(st, ast.Compare) and len(st.ops) == 1 and isinstance(st.ops[0], (ast.In, ast.NotIn)) \
                        and isinstance(st.left, ast.Constant) and isinstance(st.left.value, str):
                    kx = self.kind(st.comparators[0], q)
                    if kx is not None:
                        self.read.setdefault(kx, []).append((st.left.value, st, m, q))

    def _dict_literals(self, st, q):
        """(dict literal, its path) pairs directly under statement st."""
        out = []
        if isinstance(st, ast.Return) and isinstance(st.value, ast.Dict):
            fq = q.split(".")[-1]
            out.append((st.value, () if fq == "_build_checkpoint_base" else None))
        if isinstance(st, ast.Assign) and isinstance(st.value, ast.Dict):
            for t in st.targets:
                if isinstance(t, ast.Name):
                    out.append((st.value, self.env.get((q, t.id))))
                elif isinstance(t, ast.Subscript) and isinstance(t.slice, ast.Constant):
                    kx = self.kind(t.value, q)
                    out.append((st.value, None if kx is None else kx + (t.slice.value,)))
        if isinstance(st, ast.Expr) and isinstance(st.value, ast.Call) and callee_attr(st.value) == "update" \
                and isinstance(st.value.func, ast.Attribute) and st.value.args and isinstance(st.value.args[0], ast.Dict):
            out.append((st.value.args[0], self.kind(st.value.func.value, q)))
        # nested literal values: {"rng": {...}}
        more = []
        for d, kd in out:
            if kd is None:
                continue
            for kk, vv in zip(d.keys, d.values):
                if isinstance(kk, ast.Constant) and isinstance(vv, ast.Dict):
                    more.append((vv, kd + (kk.value,)))
        return out + more


def _r3(ctx, repo, md, nad):
    kf = _KeyFlow(repo, [md, nad])
    kf.solve()
    n_written = sum(len(v) for v in kf.written.values())
    n_read = sum(len(v) for v in kf.read.values())
    if n_written < 25 or n_read < 25:
        raise AnalysisError(f"checkpoint key flow: only {n_written} written / {n_read} read keys recognised (anchor drift)")
    # opaque sub-dicts: user config dictionaries stored whole
    opaque = {("seqm_parameters",), ("output",), ("xl_bomd_params",), ("remove_com",)}
    seen = set()
    for path, reads in sorted(kf.read.items()):
        if any(path[: len(o)] == o for o in opaque):
            continue
        wr = kf.written.get(path, {})
        for key, node, m, q in reads:
            if (path, key, q) in seen:
                continue
            seen.add((path, key, q))
            where = "ckpt" + "".join(f"[{p!r}]" for p in path)
            ctx.check(key in wr, "R3", m, node, q, f"{where}[{key!r}]",
                      f"key {key!r} of {where} read in {q} is written by a checkpoint writer",
                      f"resume reads {where}[{key!r}] in {q} but no checkpoint writer stores that key: this state is silently not restored")
    for path, wr in sorted(kf.written.items()):
        rd = {k for k, *_ in kf.read.get(path, [])}
        unread = sorted(set(wr) - rd)
        if unread and not any(path[: len(o)] == o for o in opaque):
            ctx.observe(f"written but never individually read: ckpt{list(path)} keys {unread}")
    ctx.note(f"checkpoint key flow: {n_written} written keys, {n_read} key reads over {len(kf.written)} nested dictionaries")
    ctx.floor("R3", 25)


# ------------------------------------------------------------------------------------------ R5
def _transitively_truncates(repo, mod, func, depth=0) -> bool:
    """Function (or a module-level helper it calls) performs a truncating file operation."""
    for c in calls_in(func):
        cn = callee_attr(c)
        if cn in ("truncate", "ftruncate"):
            return True
        if cn == "open" and len(c.args) >= 2 and isinstance(c.args[1], ast.Constant) and str(c.args[1].value).startswith("w"):
            return True
        if depth < 3 and isinstance(c.func, ast.Name) and c.func.id in mod.functions:
            if _transitively_truncates(repo, mod, mod.functions[c.func.id], depth + 1):
                return True
        if depth < 3 and isinstance(c.func, ast.Attribute) and isinstance(c.func.value, ast.Name) and c.func.value.id in ("self", "cls"):
            p = mod.parents.get(func)
            if isinstance(p, ast.ClassDef):
                for st in p.body:
                    if isinstance(st, ast.FunctionDef) and st.name == c.func.attr and st is not func:
                        if _transitively_truncates(repo, mod, st, depth + 1):
                            return True
    return False


def _r5(ctx, md):
    # HDF5: initialize passes resume/step_offset through
    ini = md.func("Molecular_Dynamics_Basic.initialize")
    for c in calls_in(ini):
        if callee_attr(c) == "open" and "_h5_writer" in norm(c.func):
            kws = {k.arg: norm(k.value).replace(" ", "").strip("()") for k in c.keywords}
            ctx.check(kws.get("resume") == "self.step_offset>0" and kws.get("step_offset") == "self.step_offset", "R5", md, c,
                      "Molecular_Dynamics_Basic.initialize", c, "HDF5 writer opened with resume=(step_offset>0), step_offset=self.step_offset",
                      f"HDF5 writer opened with resume={kws.get('resume')}, step_offset={kws.get('step_offset')}")
    op = md.func("HDF5Writer.open")
    routed = False
    for c in calls_in(op):
        if callee_attr(c) == "_open_resume":
            ctrl = controlling(md, md.enclosing_stmt(c))
            routed = any(pol and norm(a) == "resume" for a, pol, _ in ctrl) and any(isinstance(a, ast.Name) and a.id == "step_offset" for a in c.args)
    ctx.check(routed, "R5", md, op, "HDF5Writer.open", "_open_resume(...)", "resume path goes to _open_resume with the step offset",
              "HDF5Writer.open does not route resume=True to _open_resume(step_offset)")
    orf = md.func("HDF5Writer._open_resume")
    modes = [c for c in calls_in(orf) if (call_name(c) or "").endswith("h5py.File")]
    for c in modes:
        mode = c.args[1].value if len(c.args) > 1 and isinstance(c.args[1], ast.Constant) else None
        ctx.check(mode in ("r+", "a"), "R5", md, c, "HDF5Writer._open_resume", c, "existing HDF5 file reopened without truncation (mode r+)",
                  f"resume opens the HDF5 file with mode {mode!r}: earlier rows would be lost")
    from .c11 import check_resume_cursors
    from ..mdconf import ConfTaint
    cursors = check_resume_cursors(ctx, md, ConfTaint(ctx.repo), "R5")
    ctx.check(cursors >= 4, "R5", md, orf, "HDF5Writer._open_resume", "self.i_*", "all four HDF5 cursor families are repositioned from step_offset",
              f"only {cursors} HDF5 cursors are repositioned on resume")
    # XYZ
    xo = md.func("XYZWriter.open")
    g = build_cfg(xo)
    stores = [n for n in g.nodes if n.kind == "stmt" and isinstance(n.stmt, ast.Assign) and "self.files" in norm(n.stmt.targets[0])]
    if not stores:
        raise AnalysisError("XYZWriter.open: handle store not found")
    cls = md.cls("XYZWriter")
    for n in stores:
        opens = [c for c in calls_in(n.stmt) if callee_attr(c) == "open"]
        mode = None
        if opens and len(opens[0].args) > 1 and isinstance(opens[0].args[1], ast.Constant):
            mode = opens[0].args[1].value
        if mode is None or not str(mode).startswith("a"):
            ctrl = controlling(md, n.stmt)
            fresh_only = any(pol and norm(a).replace(" ", "") == "self.step_offset==0" for a, pol, _ in ctrl)
            if mode is not None and str(mode).startswith("w") and not fresh_only:
                ctx.fail("R5", md, n.stmt, "XYZWriter.open", n.stmt, "XYZ file opened for writing (truncating) on the resume path: earlier frames are lost")
                continue
        # positioning calls: statements on resume path that pass step_offset to a truncating helper
        pos_nodes = set()
        for x in g.nodes:
            if x.kind != "stmt":
                continue
            for c in calls_in(x.stmt):
                argtxt = " ".join(norm(a) for a in list(c.args) + [k.value for k in c.keywords])
                if "step_offset" not in argtxt:
                    continue
                target = None
                if isinstance(c.func, ast.Name) and c.func.id in md.functions:
                    target = md.functions[c.func.id]
                elif isinstance(c.func, ast.Attribute) and isinstance(c.func.value, ast.Name) and c.func.value.id == "self":
                    for st in cls.body:
                        if isinstance(st, ast.FunctionDef) and st.name == c.func.attr:
                            target = st
                if target is not None and _transitively_truncates(ctx.repo, md, target):
                    pos_nodes.add(x.id)
        # fresh-run test nodes: paths through the true edge of `step_offset == 0` are exempt
        fresh_nodes = set()
        from .c18 import three_val as _tv
        for x in g.nodes:
            if x.kind == "if" and x.expr is not None and "step_offset" in norm(x.expr):
                # the edge taken by a fresh run (step_offset == 0), whatever the spelling of the test
                fresh = _tv(x.expr, {"@values": {"self.step_offset": 0, "step_offset": 0}})
                if fresh is None:
                    continue
                for e_ in g.succ[x.id]:
                    b, lab = e_[0], e_[1]
                    if lab == ("true" if fresh else "false"):
                        fresh_nodes.add(b)
        ok = g.must_pass(g.entry, n.id, pos_nodes | fresh_nodes)
        ctx.check(ok, "R5", md, n.stmt, "XYZWriter.open", n.stmt,
                  "on the resume path the XYZ file is truncated to the checkpointed step before frames are appended",
                  "XYZWriter.open appends to the existing XYZ file on resume without positioning it from step_offset: frames written "
                  "after the last checkpoint are duplicated")


# ------------------------------------------------------------------------------------------ R6
def _r6(ctx, repo, md, nad):
    b = md.func("Molecular_Dynamics_Basic._build_checkpoint_base")
    txt = norm(b)
    ctx.check("torch.random.get_rng_state()" in txt or "torch.get_rng_state()" in txt, "R6", md, b, "_build_checkpoint_base", "rng",
              "checkpoint captures the CPU generator state", "checkpoint does not capture torch CPU RNG state")
    ctx.check("torch.cuda.get_rng_state_all()" in txt, "R6", md, b, "_build_checkpoint_base", "rng cuda",
              "checkpoint captures the CUDA generator states", "checkpoint does not capture CUDA RNG state")
    r = md.func("Molecular_Dynamics_Basic._restore_rng")
    rt = norm(r)
    ctx.check(("torch.random.set_rng_state(" in rt or "torch.set_rng_state(" in rt) and "torch.cuda.set_rng_state_all(" in rt, "R6", md, r,
              "_restore_rng", r.name, "_restore_rng restores CPU and CUDA generator state", "_restore_rng does not restore both generators")
    # key pairing inside rng dict handled by R3.  Ordering in run_from_checkpoint:
    n = 0
    for m in (md, nad):
        for q, f in _methods_named(m, "run_from_checkpoint"):
            n += 1
            g = build_cfg(f)
            runs = [x.id for x in g.nodes if x.kind == "stmt" and any(callee_attr(c) == "run" for c in calls_in(x.stmt))]
            rest = {x.id for x in g.nodes if x.kind == "stmt" and any(callee_attr(c) == "_restore_rng" for c in calls_in(x.stmt))}
            ctor = [x.id for x in g.nodes if x.kind == "stmt" and any(
                isinstance(c.func, ast.Name) and c.func.id.endswith("_cls") or (isinstance(c.func, ast.Name) and c.func.id[:1].isupper()
                                                                                 and any(k.arg is None for k in c.keywords))
                for c in calls_in(x.stmt))]
            if not runs:
                raise AnalysisError(f"{q}: no .run(...) call")
            for rn in runs:
                st = g.nodes[rn].stmt
                ctx.check(g.must_pass(g.entry, rn, rest), "R6", m, st, q, st, "RNG state restored on every path before run()",
                          f"{q}: run() can be reached without _restore_rng")
                call = [c for c in calls_in(st) if callee_attr(c) == "run"][0]
                seed_kw = [k for k in call.keywords if k.arg == "seed" and not (isinstance(k.value, ast.Constant) and k.value.value is None)]
                ctx.check(not seed_kw and len(call.args) < 6, "R6", m, st, q, st, "resumed run() is not re-seeded",
                          f"{q}: run() is called with a seed on resume, discarding the restored generator state")
                kws = {k.arg: norm(k.value) for k in call.keywords}
                # the local holding the loaded checkpoint is whatever is handed to _restore_rng in this function (name-independent)
                ck_names = [norm(c_.args[0]) for c_ in calls_in(m.func(q)) if callee_attr(c_) == "_restore_rng" and c_.args]
                CK = ck_names[0] if ck_names else "ckpt"
                ctx.check(kws.get("steps") == f"{CK}['steps']" and kws.get("remove_com") == f"{CK}['remove_com']" and kws.get("reuse_P") == "reuse_P",
                          "R6", m, st, q, st, "resumed run() receives the planned steps / remove_com / reuse_P of the original run",
                          f"{q}: run() on resume is called with steps={kws.get('steps')}, remove_com={kws.get('remove_com')}, reuse_P={kws.get('reuse_P')}")
            for c_ in ctor:
                for rs in rest:
                    # constructor (which may consume random numbers / set dtype) must not come after the restore
                    ctx.check(rs not in g.reachable(rs, avoid=set()) and c_ not in g.reachable(rs), "R6", m, g.nodes[c_].stmt, q, g.nodes[c_].stmt,
                              "engine constructed before the RNG state is restored", f"{q}: engine is constructed after _restore_rng")
    if n < 2:
        raise AnalysisError("run_from_checkpoint methods not found")
    # draws use the global generator
    draws = 0
    for m in (md, nad):
        for c in calls_in(m.tree):
            cn = call_name(c) or ""
            if cn in ("torch.randn_like", "torch.rand", "torch.randn", "torch.rand_like", "torch.normal", "torch.randint", "torch.bernoulli", "torch.multinomial"):
                draws += 1
                gen = [k for k in c.keywords if k.arg == "generator"]
                ctx.check(not gen, "R6", m, c, m.qualname_of(c), c, "random draw uses the global generator captured by the checkpoint",
                          "random draw uses a private generator whose state is not checkpointed")
            if cn.startswith(("np.random.", "numpy.random.", "random.")):
                ctx.fail("R6", m, c, m.qualname_of(c), c, "draw from a generator (numpy/stdlib) whose state the checkpoint does not capture")
    if draws < 3:
        raise AnalysisError(f"only {draws} RNG draw sites found in MD modules")


# ------------------------------------------------------------------------------------------ R7
def _r7(ctx, md, nad):
    f = md.func("Molecular_Dynamics_Basic.run")
    loops = [n for n in ast.walk(f) if isinstance(n, ast.For) and isinstance(n.iter, ast.Call) and callee_attr(n.iter) == "range"]
    main = [l for l in loops if any(callee_attr(c) == "_do_integrator_step" for c in calls_in(l))]
    if len(main) != 1:
        raise AnalysisError("run(): main step loop not found")
    l = main[0]
    a = [norm(x) for x in l.iter.args]
    ctx.check(a == ["self.step_offset", "steps"], "R7", md, l, "Molecular_Dynamics_Basic.run", l.iter,
              "step loop is range(self.step_offset, steps): absolute indices, ends at the planned length",
              f"step loop iterates `{norm(l.iter)}` instead of range(self.step_offset, steps)")
    ivar = l.target.id
    # save_checkpoint(step_done = i + 1)
    for c in calls_in(l):
        if callee_attr(c) == "save_checkpoint":
            sd = {k.arg: norm(k.value).replace(" ", "") for k in c.keywords}.get("step_done")
            ctx.check(sd == f"{ivar}+1", "R7", md, c, "Molecular_Dynamics_Basic.run", c, "checkpoint records step_done = completed absolute steps (i + 1)",
                      f"checkpoint records step_done={sd}")
            kw = {k.arg: norm(k.value) for k in c.keywords}
            pos = [norm(x) for x in c.args]
            ctx.check(pos[:4] == ["molecule", "steps", "reuse_P", "remove_com"], "R7", md, c, "Molecular_Dynamics_Basic.run", c,
                      "checkpoint records planned steps, reuse_P and remove_com", f"checkpoint arguments are {pos}")
    k = md.func("Molecular_Dynamics_Basic._checkpoint_init_kwargs")
    d = [n for n in ast.walk(k) if isinstance(n, ast.Dict)]
    so = None
    for dd in d:
        for kk, vv in zip(dd.keys, dd.values):
            if isinstance(kk, ast.Constant) and kk.value == "step_offset":
                so = norm(vv)
    kparams = [a.arg for a in k.args.args if a.arg not in ("self", "cls")]
    CK2 = next((pn for pn in kparams if any(isinstance(x, ast.Subscript) and norm(x.value) == pn for x in ast.walk(k))), "ckpt")
    ctx.check(so == f"{CK2}['step_done']", "R7", md, k, "_checkpoint_init_kwargs", "step_offset", "resumed engine gets step_offset = checkpointed step_done",
              f"resumed engine gets step_offset = {so}")
    # no `abs_index + step_offset`
    n_abs = 0
    for m in (md, nad):
        for q, fn in m.functions.items():
            if "<locals>" in q:
                continue
            abs_names = set()
            if q.split(".")[-1] == "_do_integrator_step":
                ps = [x.arg for x in fn.args.args if x.arg != "self"]
                if ps:
                    abs_names.add(ps[0])
            if q.split(".")[-1] == "one_step":
                ps = [x.arg for x in fn.args.args]
                if "step" in ps:
                    abs_names.add("step")
            if fn is f:
                abs_names.add(ivar)
            if not abs_names:
                continue
            n_abs += 1
            bad = []
            for b in ast.walk(fn):
                if isinstance(b, ast.BinOp) and isinstance(b.op, (ast.Add, ast.Sub)):
                    sides = (norm(b.left), norm(b.right))
                    if any("step_offset" in s for s in sides) and (names_in(b.left) | names_in(b.right)) & abs_names:
                        bad.append(b)
            ctx.check(not bad, "R7", m, bad[0] if bad else fn, q, bad[0] if bad else fn.name,
                      f"{q}: step_offset is never added to the already absolute step index",
                      f"{q}: `{norm(bad[0]) if bad else ''}` adds step_offset to the loop index, which already starts at step_offset "
                      f"(labels are doubled after a resume)")
    if n_abs < 4:
        raise AnalysisError("absolute-step functions not found")


# ------------------------------------------------------------------------------------------ R8
def _r8(ctx, md, nad):
    ini = md.func("Molecular_Dynamics_Basic.initialize")
    for c in calls_in(ini):
        if callee_attr(c) == "initialize_velocity":
            ctrl = controlling(md, md.enclosing_stmt(c))
            txt = [norm(a).replace(" ", "") for a, pol, _ in ctrl if pol]
            ok = any("self.step_offset==0" in t for t in txt)
            ctx.check(ok, "R8", md, c, "Molecular_Dynamics_Basic.initialize", c, "velocities are (re)initialised only for a fresh run or when none were restored",
                      "initialize_velocity is called on the resume path: restored velocities are overwritten")
        if callee_attr(c) == "esdriver":
            ctrl = controlling(md, md.enclosing_stmt(c))
            ok = any((not pol) and "is_tensor(molecule.force)" in norm(a) for a, pol, _ in ctrl)
            ctx.check(ok, "R8", md, c, "Molecular_Dynamics_Basic.initialize", c, "initial force evaluation skipped when forces were restored",
                      "initialize always recomputes forces: a resumed run would re-evaluate with a different initial density")
    xi = md.func("XL_BOMD.initialize")
    g = build_cfg(xi)
    stores = [n.id for n in g.nodes if n.kind == "stmt" and isinstance(n.stmt, ast.Assign) and norm(n.stmt.targets[0]) == "self._xl_ctx"]
    rets = {n.id for n in g.nodes if n.kind == "if" and "step_offset" in norm(n.expr)}
    if not stores:
        raise AnalysisError("XL_BOMD.initialize: _xl_ctx store not found")
    for s in stores:
        ctrl = controlling(md, g.nodes[s].stmt)
        ok = any((not pol) and norm(a).replace(" ", "") == "self.step_offset>0" for a, pol, _ in ctrl) or \
            any(pol and norm(a).replace(" ", "") == "self.step_offset==0" for a, pol, _ in ctrl)
        ctx.check(ok, "R8", md, g.nodes[s].stmt, "XL_BOMD.initialize", g.nodes[s].stmt, "XL history buffer is initialised only for a fresh run (restored history kept)",
                  "XL_BOMD.initialize overwrites the restored auxiliary-density history on resume")
    # NAD: post-initialisation applies resume state last
    ni = nad.func("NonadiabaticDynamicsBase.initialize")
    last_calls = [callee_attr(c) for c in calls_in(ni.body[-1])]
    ctx.check("_apply_resume_state" in last_calls, "R8", nad, ni.body[-1], "NonadiabaticDynamicsBase.initialize", ni.body[-1],
              "restored surface-hopping state is applied after all re-initialisation", "NonadiabaticDynamicsBase.initialize re-initialises state after _apply_resume_state")


# attributes that are loop-carried in the dataflow sense but carry no physical state: (class or *, attribute) -> reason
R4_EXCEPTIONS = {
    ("*", "_arange_cache"): "shape-keyed constant cache (index ranges); rebuilt on demand",
    ("*", "_eye_cache"): "shape-keyed constant cache (identity matrices); rebuilt on demand",
    ("*", "_coords_prev"): "scratch buffer: allocated once, fully overwritten by copy_ before it is read in the same step",
    ("*", "_mos_prev"): "scratch buffer: allocated once, fully overwritten by copy_ before it is read in the same step",
    ("*", "hop_log"): "report-only list printed at the end of run(); does not influence the trajectory (a resumed run reports the hops since the resume)",
}


def _r4(ctx, repo):
    import ast as _ast
    from ..loopstate import LoopState
    MDm, NADm = "seqm/MolecularDynamics.py", "seqm/NonadiabaticDynamics.py"
    ls = LoopState(repo, [MDm, NADm])
    engines = [(MDm, "Molecular_Dynamics_Basic"), (MDm, "Molecular_Dynamics_Langevin"), (MDm, "XL_BOMD"), (MDm, "KSA_XL_BOMD"), (MDm, "XL_ESMD"), (NADm, "SurfaceHoppingDynamics")]
    n = 0
    for rel, cname in engines:
        m = repo.mod(rel)
        if cname not in m.classes:
            raise AnalysisError(f"engine class {cname} not found")
        cctx = (m, m.classes[cname])
        res = ls.loop_carried(m, cname)
        if res is None:
            raise AnalysisError(f"{cname}: step hook not found")
        lc = res[0]
        if len(lc) < 3:
            raise AnalysisError(f"{cname}: implausibly small loop-carried set {lc}")
        saved = ls.source_attrs(ls.chain(cctx, ["save_checkpoint"]))
        rfuncs = ls.chain(cctx, ["run_from_checkpoint", "_restore_molecule_from_ckpt", "_load_checkpoint_base", "_apply_resume_state"])
        restored = ls.stored_attrs(rfuncs) | ls.constructor_attrs(rfuncs)
        ifuncs = ls.chain(cctx, ["initialize"])
        init_w = ls.derived_attrs(ifuncs)
        ext = set()
        for mm, q, f in ifuncs:
            for call in _ast.walk(f):
                if isinstance(call, _ast.Call):
                    ext |= {k.split(".")[1] for k in ls.external(call)[1]}
        for a in lc:
            name = a.split(".")[1]
            n += 1
            exc = R4_EXCEPTIONS.get((cname, name)) or R4_EXCEPTIONS.get(("*", name))
            if name in saved and name in restored:
                ctx.ok("R4", f"{cname}", f"{a}: loop-carried, written by the checkpoint writer chain and assigned on the resume path")
            elif name in init_w or name in ext:
                ctx.ok("R4", f"{cname}", f"{a}: loop-carried, recomputed by initialize() from the restored molecule (directly or through the electronic-structure call) before the first resumed step")
            elif exc:
                ctx.ok("R4", f"{cname}", f"{a}: inventoried non-state attribute ({exc})", nontrivial=False)
            elif _reset_to_init_constant(ls, cctx, a):
                ctx.ok("R4", f"{cname}", f"{a}: step-local, unconditionally reset at the end of every step to the constant the constructor gives it")
            else:
                stepf = ls.resolve(cctx, "_do_integrator_step")[0]
                ctx.fail("R4", stepf[0], stepf[2], stepf[1], f"{cname}: loop-carried {a}",
                         f"{cname}: `{a}` carries a value from one step into the next (read in an iteration before that iteration has written it, and written in the iteration) "
                         f"but is " + ("not written into the checkpoint" if name not in saved else "written into the checkpoint but never assigned on the resume path") +
                         f" and not re-established by initialize(): a run resumed from a checkpoint continues from a different state than the uninterrupted run")
    ctx.floor("R4", 30)


def _reset_to_init_constant(ls, cctx, a):
    """`self.X = <constant>` is the last top-level write of X in the step function and __init__ assigns the same constant"""
    import ast as _ast
    if not a.startswith("self."):
        return False
    name = a.split(".")[1]
    res = ls.resolve(cctx, "_do_integrator_step")
    if not res:
        return False
    f = res[0][2]
    last_const = None
    for st in f.body:
        writes_x = any(isinstance(x, _ast.Attribute) and x.attr == name and norm(x.value) == "self" and isinstance(x.ctx, _ast.Store) for x in _ast.walk(st))
        if not writes_x:
            continue
        if isinstance(st, _ast.Assign) and len(st.targets) == 1 and norm(st.targets[0]) == a and isinstance(st.value, _ast.Constant):
            last_const = st.value.value
            have = True
        else:
            last_const = "<non-constant>"
    if last_const == "<non-constant>" or "have" not in dir():
        return False
    for m_, q_, f_ in ls.chain(cctx, ["__init__"]):
        for st in _ast.walk(f_):
            if isinstance(st, (_ast.Assign, _ast.AnnAssign)):
                tg = st.targets if isinstance(st, _ast.Assign) else [st.target]
                if any(norm(t) == a for t in tg) and isinstance(st.value, _ast.Constant) and st.value.value == last_const:
                    return True
    return False


def _r9_ctor_kwargs(ctx, repo, rid="R9"):
    """run_from_checkpoint rebuilds the engine as md_classes[md_type](**kwargs).  For every engine type T the path that T takes through
    the function (tests on md_type are decided by constant folding, everything else is left open) must store kwargs[K] before the
    constructor call for every setting K that (a) a checkpoint writer records at the top level and (b) the class (its __init__ chain)
    accepts as a named parameter.  A setting that is recorded but not handed back makes the resumed run use the constructor default
    (e.g. damp=None: a thermostatted XL-BOMD run continues as NVE)."""
    MDm = "seqm/MolecularDynamics.py"
    md = repo.mod(MDm)
    f = md.func("Molecular_Dynamics_Basic.run_from_checkpoint")
    g = build_cfg(f)
    # engine table
    tbl = None
    for st in ast.walk(f):
        if isinstance(st, ast.Assign) and isinstance(st.value, ast.Dict) and st.value.keys and all(isinstance(k, ast.Constant) and isinstance(k.value, str) for k in st.value.keys) \
                and all(isinstance(v, ast.Name) and v.id in md.classes for v in st.value.values):
            tbl = {k.value: v.id for k, v in zip(st.value.keys, st.value.values)}
    if not tbl:
        # the dispatch is not the plain {name: class} table: decide the constructor arguments by interpreting the routine for a synthetic checkpoint of every engine type
        from ..assembly import resume_kwargs_verdict
        ok_i, msg_i = resume_kwargs_verdict(repo)
        ctx.check(ok_i, rid, md, f, "Molecular_Dynamics_Basic.run_from_checkpoint", "constructor arguments (interpreted)", msg_i, msg_i)
        for _ in range(4):
            ctx.ok(rid, f"{MDm}:run_from_checkpoint", "decided by the interpreted resume", nontrivial=False)
        return
    # recorded top-level keys
    recorded = set()
    for q, fn in md.functions.items():
        if q.split(".")[-1] in ("_build_checkpoint_base", "save_checkpoint"):
            for d in ast.walk(fn):
                if isinstance(d, ast.Dict):
                    par = md.parents.get(d)
                    if isinstance(par, ast.Return) or (isinstance(par, ast.Call) and callee_attr(par) == "update"):
                        recorded |= {k.value for k in d.keys if isinstance(k, ast.Constant) and isinstance(k.value, str)}
                if isinstance(d, ast.Assign) and isinstance(d.targets[0], ast.Subscript) and norm(d.targets[0].value) == "ckpt" and isinstance(d.targets[0].slice, ast.Constant):
                    recorded.add(d.targets[0].slice.value)
    base_f = md.func("Molecular_Dynamics_Basic._checkpoint_init_kwargs")
    base_keys = set()
    for d in ast.walk(base_f):
        if isinstance(d, ast.Dict):
            base_keys |= {k.value for k in d.keys if isinstance(k, ast.Constant)}
    ctor = [n.id for n in g.nodes if n.kind == "stmt" and any(isinstance(c.func, ast.Name) and c.func.id == "md_cls" for c in calls_in(n.stmt))]
    if not ctor:
        raise AnalysisError("run_from_checkpoint: constructor call md_cls(**kwargs) not found")
    stores = {}
    for n in g.nodes:
        if n.kind == "stmt" and isinstance(n.stmt, ast.Assign) and isinstance(n.stmt.targets[0], ast.Subscript) and norm(n.stmt.targets[0].value) == "kwargs" \
                and isinstance(n.stmt.targets[0].slice, ast.Constant):
            stores.setdefault(n.stmt.targets[0].slice.value, set()).add(n.id)

    def decide(test, T):
        """fold tests that only involve md_type / the engine table"""
        if isinstance(test, ast.BoolOp):
            vs = [decide(v, T) for v in test.values]
            if isinstance(test.op, ast.And):
                return False if any(v is False for v in vs) else (True if all(v is True for v in vs) else None)
            return True if any(v is True for v in vs) else (False if all(v is False for v in vs) else None)
        if isinstance(test, ast.UnaryOp) and isinstance(test.op, ast.Not):
            v = decide(test.operand, T)
            return None if v is None else not v
        if isinstance(test, ast.Compare) and len(test.ops) == 1 and norm(test.left) == "md_type":
            r = test.comparators[0]
            if isinstance(r, ast.Name) and r.id == "md_classes":
                vals = list(tbl)
            elif isinstance(r, (ast.Tuple, ast.List, ast.Set)) and all(isinstance(e, ast.Constant) for e in r.elts):
                vals = [e.value for e in r.elts]
            elif isinstance(r, ast.Constant):
                vals = r.value
            else:
                return None
            op = test.ops[0]
            if isinstance(op, ast.In):
                return T in vals
            if isinstance(op, ast.NotIn):
                return T not in vals
            if isinstance(op, ast.Eq):
                return T == vals
            if isinstance(op, ast.NotEq):
                return T != vals
        return None
    n = 0
    for T, cname in sorted(tbl.items()):
        params = set()
        for cm, cc in repo.mro(md, md.classes[cname]):
            for st in cc.body:
                if isinstance(st, ast.FunctionDef) and st.name == "__init__":
                    params |= {a.arg for a in st.args.args + st.args.kwonlyargs if a.arg != "self"}
        required = sorted((params & recorded) - base_keys)
        # nodes feasible for T
        seen = {g.entry}
        todo = [g.entry]
        while todo:
            x = todo.pop()
            node = g.nodes[x]
            dec = decide(node.expr, T) if node.kind in ("if", "while") and node.expr is not None else None
            for b, lab in g.succ[x]:
                if dec is not None and lab in ("true", "false") and (lab == "true") != dec:
                    continue
                if b not in seen:
                    seen.add(b)
                    todo.append(b)
        infeasible = {i for i in range(len(g.nodes)) if i not in seen}
        for K in required:
            n += 1
            sk = stores.get(K, set()) & seen
            reach = g.reachable(g.entry, avoid=sk | infeasible) | {g.entry}
            ok = bool(sk) and not any(c in reach for c in ctor)
            ctx.check(ok, rid, md, f, "Molecular_Dynamics_Basic.run_from_checkpoint", f"{T}: kwargs['{K}']",
                      f"{T} ({cname}) is rebuilt with the recorded `{K}`",
                      f"engine type {T}: the checkpoint records `{K}` and {cname}.__init__ accepts it, but on the path this type takes the constructor is reached without "
                      f"kwargs['{K}'] being set: the resumed engine runs with the constructor default (for damp: the thermostat of a damped run is silently switched off on resume)")
    if n < 4:
        raise AnalysisError(f"only {n} constructor settings inventoried")
