"""C13 -- initial conditions, centre-of-mass handling and seeding behave as documented (structural clauses)."""
from __future__ import annotations

import ast

from ..cfg import build_cfg
from ..exprs import to_sympy
from ..guards import controlling
from ..loader import AnalysisError, attr_chain, call_name, callee_attr, calls_in, names_in, norm, short
from ..mdstep import MD, NAD, ZeroOnPad, local_defs, md_env, md_funcs, md_symbols, mutated_phase_attr

LEVEL = "other"
EXPLANATION = (
    "R1 user-supplied velocities are the starting velocities: on every path of initialize_velocity on which "
    "torch.is_tensor(molecule.velocities) held, no statement with a (transitive) write effect on molecule.velocities executes; "
    "R2 the seed dominates every draw: torch.manual_seed(int(seed)) and its CUDA twin precede initialize() and the step loop on "
    "every path with a seed, the argument is the seed parameter, no other manual_seed is reachable from the MD modules, every "
    "draw uses the global generator; R3 exact-rescale chain of the Maxwell-Boltzmann draw (amplitude sqrt(T*mass_inverse)*VEL_SCALE, "
    "Ek -> T1 -> *sqrt(T/T1) -> COM removal with kinetic-energy restoration), n_dof set before, T=0 short-circuit; R4 padding "
    "atoms stay at rest: abstract interpretation over the lattice {zero-on-padding, any} of every in-place velocity update in the "
    "MD modules; R5 COM removal: mode validated with a raise, COM/angular momentum expressions, periodic removal keeps the "
    "kinetic energy. The realised temperature value is not decided."
)
ASSUMPTIONS = ["molecule.mass, mass_inverse and force are zero on padding rows (Molecule.__init__ / C01-R4)"]
TRUSTED = ["mod-ref summary of velocity writers within MolecularDynamics.py", "ZeroOnPad abstract domain"]

VEL_WRITERS_TRANSITIVE = {"_zero_com", "_apply_langevin_thermostat", "initialize_velocity", "_rescale_velocity_along_nac"}


def _writes_velocities(md, func_name, depth=0, seen=None) -> bool:
    """Transitive mod-ref: does method `func_name` (any class in the MD module) write molecule.velocities?"""
    seen = seen or set()
    if func_name in seen or depth > 4:
        return False
    seen.add(func_name)
    for q, f in md.functions.items():
        if q.split(".")[-1] != func_name or "<locals>" in q:
            continue
        for st in ast.walk(f):
            if isinstance(st, ast.stmt):
                if any(a == "velocities" for a, _, _ in mutated_phase_attr(st)):
                    return True
        for c in calls_in(f):
            if isinstance(c.func, ast.Attribute) and isinstance(c.func.value, ast.Name) and c.func.value.id == "self":
                if _writes_velocities(md, c.func.attr, depth + 1, seen):
                    return True
    return False


def run(ctx):
    import sympy as sp
    repo = ctx.repo
    md, nad = repo.mod(MD), repo.mod(NAD)
    sym = md_symbols()
    ctx.rule("R1", "user-supplied velocities are untouched before the first step")
    ctx.rule("R2", "seed dominates every random draw of a run")
    ctx.rule("R3", "exact-rescale chain of the Maxwell-Boltzmann draw")
    ctx.rule("R4", "padding atoms stay at rest (ZeroOnPad abstract interpretation of every in-place velocity update)")
    ctx.rule("R5", "centre-of-mass handling: validated mode, momentum expressions, kinetic energy restored in periodic removal")
    ctx.rule("R6", "degrees of freedom count real atoms (num_atoms, not the padded molsize); overrides forward their arguments to the parent implementation")
    _r6_dof_and_forwarding(ctx, repo)

    # ---------------------------------------------------------------- R1
    iv = md.func("Molecular_Dynamics_Basic.initialize_velocity")
    g = build_cfg(iv)
    # every statement that can run when the caller supplied velocities, whichever way the test is written (guard clause, negated nesting, flag): three-valued exploration of
    # the flow graph under `torch.is_tensor(molecule.velocities)` = True
    from .c18 import reach_under
    atom = "torch.is_tensor(molecule.velocities)"
    user_ifs = [n for n in g.nodes if n.kind in ("if", "while") and n.expr is not None and any(norm(x) == atom for x in ast.walk(n.expr))]
    if not user_ifs:
        raise AnalysisError("initialize_velocity: user-velocity branch not found")
    seen_, used_ = reach_under(g, {atom: True})
    if atom not in used_:
        raise AnalysisError("initialize_velocity: the test on user-supplied velocities is not decided by the exploration")
    for n in user_ifs[:1]:
        region = seen_
        offenders = []
        for i in region:
            x = g.nodes[i]
            if x.kind != "stmt":
                continue
            direct = [a for a, _, _ in mutated_phase_attr(x.stmt) if a == "velocities"]
            trans = [callee_attr(c) for c in calls_in(x.stmt) if isinstance(c.func, ast.Attribute) and isinstance(c.func.value, ast.Name)
                     and c.func.value.id == "self" and _writes_velocities(md, c.func.attr)]
            if direct or trans:
                offenders.append(x.stmt)
        ctx.check(not offenders, "R1", md, offenders[0] if offenders else n.stmt, "Molecular_Dynamics_Basic.initialize_velocity",
                  offenders[0] if offenders else n.expr,
                  "velocities supplied by the user reach the first step unmodified",
                  f"user-supplied velocities are modified before step 0 by `{short(offenders[0], 80) if offenders else ''}` "
                  f"(documentation: supplied velocities are used directly)")
    n_al = check_phase_aliases(ctx, "R1")
    ctx.ok("R1", MD, f"{n_al} call sites receive the molecule's own phase-space tensors (not copies); none of the callees changes that argument in place", nontrivial=False)
    # initialize(): between entry and the first force evaluation nothing else writes velocities except initialize_velocity
    ini = md.func("Molecular_Dynamics_Basic.initialize")
    for st in ast.walk(ini):
        if isinstance(st, ast.stmt) and not isinstance(st, (ast.If, ast.With, ast.FunctionDef, ast.For, ast.While, ast.Try)):
            direct = [a for a, _, _ in mutated_phase_attr(st) if a == "velocities"]
            trans = [callee_attr(c) for c in calls_in(st) if isinstance(c.func, ast.Attribute) and isinstance(c.func.value, ast.Name)
                     and c.func.value.id == "self" and c.func.attr != "initialize_velocity" and _writes_velocities(md, c.func.attr)]
            if direct or trans:
                ctx.fail("R1", md, st, "Molecular_Dynamics_Basic.initialize", st, "initialize() alters velocities outside initialize_velocity")
    ctx.check(True, "R1", md, ini, "Molecular_Dynamics_Basic.initialize", ini.name, "initialize() writes velocities only through initialize_velocity")
    # Langevin/XL/NAD initialize overrides: no velocity writes
    for rel, q in ((MD, "Molecular_Dynamics_Langevin.initialize"), (MD, "XL_BOMD.initialize"), (MD, "XL_ESMD.initialize"), (NAD, "NonadiabaticDynamicsBase.initialize")):
        m = repo.mod(rel)
        f = m.func(q)
        bad = [st for st in ast.walk(f) if isinstance(st, ast.stmt) and not isinstance(st, (ast.If, ast.With, ast.For, ast.While, ast.Try, ast.FunctionDef))
               and any(a in ("velocities",) for a, _, _ in mutated_phase_attr(st))]
        ctx.check(not bad, "R1", m, bad[0] if bad else f, q, bad[0] if bad else f.name, f"{q} does not write velocities",
                  f"{q} writes velocities during initialisation: `{short(bad[0], 60) if bad else ''}`")

    # ---------------------------------------------------------------- R2
    rn = md.func("Molecular_Dynamics_Basic.run")
    g = build_cfg(rn)
    seed_param = "seed"
    if seed_param not in [a.arg for a in rn.args.args]:
        raise AnalysisError("run(): no seed parameter")
    seed_ifs = [n for n in g.nodes if n.kind == "if" and norm(n.expr).replace(" ", "") == "seedisnotNone"]
    cpu = [n for n in g.nodes if n.kind == "stmt" and any(call_name(c) == "torch.manual_seed" for c in calls_in(n.stmt))]
    cuda = [n for n in g.nodes if n.kind == "stmt" and any(call_name(c) == "torch.cuda.manual_seed_all" for c in calls_in(n.stmt))]
    inits = [n for n in g.nodes if n.kind == "stmt" and any(callee_attr(c) == "initialize" for c in calls_in(n.stmt))]
    steps = [n for n in g.nodes if n.kind == "stmt" and any(callee_attr(c) == "_do_integrator_step" for c in calls_in(n.stmt))]
    ok_struct = bool(seed_ifs and cpu and cuda and inits and steps)
    ctx.check(ok_struct, "R2", md, rn, "Molecular_Dynamics_Basic.run", "seed handling", "run() seeds the CPU and CUDA generators when a seed is given",
              "run() does not seed both generators under `seed is not None`")
    if ok_struct:
        sif = seed_ifs[0]
        false_edges_removed = {"false"}
        for target in inits + steps:
            # all paths entry->target must pass the seed test
            ctx.check(g.must_pass(g.entry, target.id, {sif.id}), "R2", md, target.stmt, "Molecular_Dynamics_Basic.run", target.stmt,
                      "the seed test precedes initialisation and the step loop", "initialize()/step loop reachable before the seed is applied")
            # on the seeded branch both generators are seeded before the target
            true_succ = [b for b, lab in g.succ[sif.id] if lab == "true"]
            for kind, nodes in (("CPU", cpu), ("CUDA", cuda)):
                reach = g.reachable(true_succ, avoid={n.id for n in nodes}, include_src=True)
                ctx.check(target.id not in reach, "R2", md, target.stmt, "Molecular_Dynamics_Basic.run", target.stmt,
                          f"{kind} generator seeded before `{short(target.stmt, 40)}` on every seeded path",
                          f"with a seed given, `{short(target.stmt, 50)}` can run before the {kind} generator is seeded")
        for n in cpu + cuda:
            c = [c for c in calls_in(n.stmt) if (call_name(c) or "").endswith(("manual_seed", "manual_seed_all"))][0]
            a = c.args[0] if c.args else None
            core = a.args[0] if isinstance(a, ast.Call) and isinstance(a.func, ast.Name) and a.func.id == "int" and a.args else a
            ctx.check(isinstance(core, ast.Name) and core.id == seed_param, "R2", md, c, "Molecular_Dynamics_Basic.run", c,
                      "the generator is seeded with the caller's seed", f"generator seeded with `{norm(a)}` instead of the seed argument")
            ctrl = controlling(md, n.stmt)
            ctx.check(any(p and norm(x).replace(" ", "") == "seedisnotNone" for x, p, _ in ctrl) and len(ctrl) == 1, "R2", md, c,
                      "Molecular_Dynamics_Basic.run", c, "seeding depends only on a seed being given", "seeding is under an extra condition")
    # no other seeding anywhere on the MD path
    n_seed = 0
    for m in repo.modules("seqm"):
        for c in calls_in(m.tree):
            cn = call_name(c) or ""
            if cn.endswith(("manual_seed", "manual_seed_all", ".seed")) and cn.startswith(("torch", "np.random", "numpy.random", "random")):
                n_seed += 1
                q = m.qualname_of(c)
                if m.rel in (MD,) and q == "Molecular_Dynamics_Basic.run":
                    continue
                on_md_path = m.rel in (MD, NAD, "seqm/basics.py", "seqm/ElectronicStructure.py", "seqm/Molecule.py", "seqm/seqm_functions/scf_loop.py")
                ctx.check(not on_md_path, "R2", m, c, q, c, f"seeding call in {m.rel}::{q} is off the MD path (debug helper)",
                          f"`{short(c, 50)}` re-seeds the generator on the MD path: the user's seed no longer determines the trajectory")
    if n_seed < 2:
        raise AnalysisError("seeding calls not found")

    # ---------------------------------------------------------------- R3
    g = build_cfg(iv)
    defs = local_defs(iv)
    env = md_env(sym)
    draw = [st for st in ast.walk(iv) if isinstance(st, ast.Assign) and norm(st.targets[0]) == "molecule.velocities"
            and any((call_name(c) or "").startswith("torch.randn") for c in calls_in(st.value))]
    ctx.check(len(draw) == 1, "R3", md, iv, "Molecular_Dynamics_Basic.initialize_velocity", "draw", "exactly one Maxwell-Boltzmann draw",
              f"{len(draw)} random velocity draws found")
    if draw:
        d = draw[0]
        R = sp.Symbol("R", real=True)
        f = md_funcs()
        f["torch.randn_like"] = lambda a, n: R
        f["torch.randn"] = lambda a, n: R

        def atom(n):
            if isinstance(n, ast.Name) and n.id in defs and len(defs[n.id]) == 1:
                return to_sympy(defs[n.id][0], env, f, atom)
            return None
        # (the amplitude of the draw is decided by the interpreted postconditions below; the pre-rescale amplitude sqrt(Temp * mass_inverse) * VEL_SCALE is checked
        #  in its own right only when the expression is a per-atom scalar formula)
        try:
            e = to_sympy(d.value, env, f, atom)
            want = R * sp.sqrt(sym["Temp"] * sym["minv"]) * sym["VEL"]
            ctx.check(sp.simplify(e - want) == 0, "R3", md, d, "Molecular_Dynamics_Basic.initialize_velocity", d,
                      "draw amplitude = sqrt(Temp * mass_inverse) * VEL_SCALE per atom", f"draw is {e}, expected {want}")
        except AnalysisError:
            pass
        rn_calls = [c for c in calls_in(d.value) if (call_name(c) or "").startswith("torch.randn")]
        ctx.check(norm(rn_calls[0].args[0]) == "molecule.coordinates" and not any(k.arg == "generator" for k in rn_calls[0].keywords), "R3", md, d,
                  "Molecular_Dynamics_Basic.initialize_velocity", d, "one independent normal per coordinate from the global generator",
                  "draw shape/generator changed")
        # what the routine achieves, decided by interpreting it (sa.npsym, exact arithmetic, the normal draw replaced by fixed rational numbers) on a padded batch:
        # the instantaneous temperature of every molecule equals the requested one exactly, velocities are the draw scaled by sqrt(mass_inverse) up to one factor per
        # molecule, padding atoms stay at rest, and with vel_com the total momentum vanishes without changing the temperature
        chain_ok, why = _initial_velocity_postconditions(ctx, md)
        ctx.check(chain_ok, "R3", md, d, "Molecular_Dynamics_Basic.initialize_velocity", "draw -> exact temperature",
                  "drawn velocities are mass-weighted normals rescaled so that every molecule's own temperature is exactly Temp (padded batch, exact arithmetic), also after COM removal",
                  f"initial velocities: {why}")
    # n_dof guard and T == 0 shortcut
    guard = [n for n in g.nodes if n.kind == "if" and norm(n.expr).replace(" ", "") == "self.n_dofisNone"]
    ctx.check(bool(guard) and any(isinstance(g.nodes[b].stmt, ast.Raise) for b, lab in g.succ[guard[0].id] if lab == "true"), "R3", md, iv,
              "Molecular_Dynamics_Basic.initialize_velocity", "n_dof guard", "velocity draw refuses to run before n_dof is set", "n_dof guard removed")
    zero = [st for st in ast.walk(iv) if isinstance(st, ast.Assign) and norm(st.targets[0]) == "molecule.velocities" and "zeros_like" in norm(st.value)]
    z_ok = bool(zero) and any(p and norm(a).replace(" ", "") in ("self.Temp==0.0", "self.Temp==0") for a, p, _ in controlling(md, zero[0]))
    ctx.check(z_ok, "R3", md, zero[0] if zero else iv, "Molecular_Dynamics_Basic.initialize_velocity", zero[0] if zero else "Temp==0",
              "Temp == 0 gives exactly zero velocities", "zero-temperature start is not exactly at rest")

    # ---------------------------------------------------------------- R4
    n_up = 0
    # the Langevin noise amplitude: zero wherever the inverse mass is zero, by value (whatever helpers / records compute it); shape-based def-chain reading otherwise
    z_fields = set()
    try:
        from ..assembly import interpreted_langevin_coefficients
        if interpreted_langevin_coefficients(repo)["zero_on_pad"]:
            z_fields.add("langevin_c2")
    except AnalysisError:
        pass
    for rel in (MD, NAD):
        m = repo.mod(rel)
        for q, f in m.functions.items():
            if "<locals>" in q:
                continue
            cls = m.parents.get(f)
            fields = {}
            if isinstance(cls, ast.ClassDef):
                for mm, c in repo.mro(m, cls):
                    for st in ast.walk(c):
                        if isinstance(st, ast.Assign) and len(st.targets) == 1 and isinstance(st.targets[0], ast.Attribute) \
                                and norm(st.targets[0].value) == "self":
                            fields.setdefault(st.targets[0].attr, st.value)
            zp = ZeroOnPad(f, fields, z_self_fields=z_fields)
            done = set()
            for st in ast.walk(f):
                if not isinstance(st, ast.stmt):
                    continue
                for attr, how, node in mutated_phase_attr(st):
                    if attr != "velocities" or id(node) in done or m.enclosing_function(node) is not f:
                        continue
                    done.add(id(node))
                    if how in ("mul_", "zero_", "div_", "neg_"):
                        n_up += 1
                        ctx.ok("R4", f"{m.rel}:{node.lineno} {q}", f"`{short(node, 50)}` scales velocities: zero rows stay zero", nontrivial=False)
                        continue
                    if how in ("add_", "sub_"):
                        val = node.args[0]
                    elif how == "assign":
                        val = node.value
                        if isinstance(val, ast.Constant) and val.value is None:
                            continue
                        if "to(device)" in norm(val) or "mol_ckpt" in norm(val):
                            continue  # checkpoint restore
                    elif how == "store[]":
                        val = node.value
                    else:
                        ctx.fail("R4", m, node, q, node, f"unclassified in-place velocity update `{how}`")
                        continue
                    n_up += 1
                    ctx.check(zp.is_z(val), "R4", m, node, q, node,
                              f"`{short(node, 60)}` adds a value that is zero on padding rows",
                              f"`{short(node, 80)}` changes the velocity of padding atoms: `{short(val, 60)}` is not zero on padding rows "
                              f"(no factor of mass_inverse / force / a real-atom mask)")
    if n_up < 12:
        raise AnalysisError(f"only {n_up} in-place velocity updates found")

    # ---------------------------------------------------------------- R5
    bi = md.func("Molecular_Dynamics_Basic.initialize")
    from ..assembly import com_setup_verdicts
    cv = com_setup_verdicts(repo)
    ctx.check(cv["validation"][0], "R5", md, bi, "Molecular_Dynamics_Basic.initialize", "remove_com validation", cv["validation"][1], cv["validation"][1])
    ctx.check(cv["mode"][0], "R5", md, bi, "Molecular_Dynamics_Basic.initialize", "remove_com_angular", cv["mode"][1], cv["mode"][1])
    # periodic removal in run()
    for c in calls_in(rn):
        if callee_attr(c) == "_zero_com":
            kws = {k.arg: norm(k.value) for k in c.keywords}
            ctx.check(kws.get("remove_angular") == "self.remove_com_angular" and kws.get("restore_kinetic_energy", "True") == "True"
                      and kws.get("translate_to_origin", "False") == "False", "R5", md, c, "Molecular_Dynamics_Basic.run", c,
                      "periodic COM removal honours the mode and restores the kinetic energy",
                      f"periodic COM removal called with {kws}")
            ctrl = controlling(md, md.enclosing_stmt(c))
            ctx.check(any(p and norm(a) == "self.do_remove_com" for a, p, _ in ctrl), "R5", md, c, "Molecular_Dynamics_Basic.run", c,
                      "periodic COM removal only when requested", "COM removal runs without being requested")
    check_zero_com(ctx, md, "R5")


def _initial_velocity_postconditions(ctx, md):
    import random
    import types
    import numpy as np
    import sympy as sp
    from ..npsym import NpSym, Raised
    repo = ctx.repo
    iv = md.func("Molecular_Dynamics_Basic.initialize_velocity")
    rng = random.Random(9)
    R = lambda: sp.Rational(rng.randint(-9, 9) or 1, rng.randint(1, 5))
    mass = np.array([[[sp.Integer(16)], [sp.Integer(12)], [sp.Integer(1)]], [[sp.Integer(14)], [sp.Integer(1)], [sp.Integer(0)]]], dtype=object)
    minv = np.array([[[sp.Rational(1, 16)], [sp.Rational(1, 12)], [sp.Integer(1)]], [[sp.Rational(1, 14)], [sp.Integer(1)], [sp.Integer(0)]]], dtype=object)
    coords = np.array([[[R() for _ in range(3)] for _ in range(3)] for _ in range(2)], dtype=object)
    G = np.array([[[R() for _ in range(3)] for _ in range(3)] for _ in range(2)], dtype=object)
    Temp = sp.Integer(300)
    ndof = sp.Integer(6)
    for vel_com in (False, True):
        I = NpSym(repo, stubs={"torch.randn_like": lambda x, *a, **k: G.copy(), "torch.manual_seed": lambda *a, **k: None, "torch.cuda.manual_seed_all": lambda *a, **k: None,
                               "torch.cuda.manual_seed": lambda *a, **k: None})
        mol = types.SimpleNamespace(mass=mass.copy(), mass_inverse=minv.copy(), coordinates=coords.copy(), velocities=None)
        selfns = types.SimpleNamespace(Temp=Temp, n_dof=ndof, seed=0)
        for nm in ("_kinetic_energy", "_calc_temperature", "_zero_com"):
            setattr(selfns, nm, _bind(I, md, md.func(f"Molecular_Dynamics_Basic.{nm}"), selfns))
        try:
            I.call_function(md, iv, [selfns, mol], {"vel_com": vel_com})
        except Raised as e:
            return False, f"raises on an ordinary padded batch ({e.what[:80]})"
        v = mol.velocities
        if getattr(v, "shape", None) != (2, 3, 3):
            return False, "velocities have the wrong shape"
        KES = I.global_value(md, "CONSTANTS").KINETIC_ENERGY_SCALE
        TS = I.global_value(md, "CONSTANTS").TEMPERATURE_SCALE
        m = mass[..., 0]
        for b in range(2):
            ke = sp.Rational(1, 2) * sum(m[b, a] * v[b, a, c] ** 2 for a in range(3) for c in range(3)) * KES
            T = ke * TS / (sp.Rational(1, 2) * ndof)
            if sp.simplify(T - Temp) != 0:
                return False, f"the temperature of molecule {b} of a padded batch is {sp.N(T, 8)} K instead of the requested {Temp} K (vel_com={vel_com})"
            if not vel_com:
                ref = v[b, 0, 0] / (G[b, 0, 0] * sp.sqrt(minv[b, 0, 0]))
                for a in range(3):
                    for c in range(3):
                        if sp.simplify(v[b, a, c] - ref * G[b, a, c] * sp.sqrt(minv[b, a, 0])) != 0:
                            return False, f"velocity of atom {a} of molecule {b} is not the normal draw scaled by sqrt(mass_inverse) (one common factor per molecule)"
            else:
                if any(sp.simplify(sum(m[b, a] * v[b, a, c] for a in range(3))) != 0 for c in range(3)):
                    return False, f"molecule {b} keeps a net momentum after initialisation with vel_com"
        if any(sp.simplify(v[1, 2, c]) != 0 for c in range(3)):
            return False, "the padding atom receives a velocity"
    return True, ""


def check_zero_com(ctx, md, rid):
    """COM projection decided by its postconditions (shared with C08).  `_zero_com` (and the kinetic-energy routine it calls) is interpreted by sa.npsym with exact
    rational arithmetic on a padded batch -- a non-collinear 3-atom molecule and a 2-atom molecule with one padding atom, different masses -- for every combination of
    its switches.  Whatever the spelling: afterwards each molecule has zero linear momentum, zero angular momentum about its own centre of mass (when requested), its own
    kinetic energy restored (when requested), padding atoms at rest, positions centred (when requested) and otherwise untouched."""
    import itertools
    import random
    import types
    import numpy as np
    import sympy as sp
    from ..npsym import NpSym, FuncRef, Raised
    repo = ctx.repo
    zc = md.func("Molecular_Dynamics_Basic._zero_com")
    rng = random.Random(5)
    R = lambda lo=-9, hi=9: sp.Rational(rng.randint(lo, hi), rng.randint(1, 5))
    mass = np.array([[[sp.Integer(16)], [sp.Integer(12)], [sp.Integer(1)]], [[sp.Integer(14)], [sp.Integer(1)], [sp.Integer(0)]]], dtype=object)
    coords0 = np.array([[[R() for _ in range(3)] for _ in range(3)] for _ in range(2)], dtype=object)
    vel0 = np.array([[[R() for _ in range(3)] for _ in range(3)] for _ in range(2)], dtype=object)
    vel0[1, 2, :] = sp.Integer(0)           # the padding atom is at rest
    params = [a.arg for a in zc.args.args]
    flags = [p_ for p_ in params[2:]]
    need = {"remove_angular", "translate_to_origin", "restore_kinetic_energy"}
    if not need <= set(flags):
        raise AnalysisError(f"_zero_com: switches {sorted(need - set(flags))} not found in its signature")
    dflt = {a.arg: norm(d_) for a, d_ in zip(zc.args.args[-len(zc.args.defaults):], zc.args.defaults)}
    ctx.check(dflt.get("restore_kinetic_energy") == "True", rid, md, zc, "Molecular_Dynamics_Basic._zero_com", "defaults",
              "restore_kinetic_energy defaults to True", f"_zero_com defaults are {dflt}")
    consts = None
    for ang, trans, restore in itertools.product((True, False), repeat=3):
        I = NpSym(repo)
        mol = types.SimpleNamespace(mass=mass.copy(), coordinates=coords0.copy(), velocities=vel0.copy())
        selfns = types.SimpleNamespace()
        for nm in ("_kinetic_energy", "_calc_temperature"):
            q_ = f"Molecular_Dynamics_Basic.{nm}"
            if md.has_func(q_):
                f_ = md.func(q_)
                setattr(selfns, nm, _bind(I, md, f_, selfns))
        selfns.n_dof = sp.Integer(6)
        try:
            I.call_function(md, zc, [selfns, mol], {"remove_angular": ang, "translate_to_origin": trans, "restore_kinetic_energy": restore})
        except Raised as e:
            ctx.fail(rid, md, zc, "Molecular_Dynamics_Basic._zero_com", f"switches {ang, trans, restore}", f"_zero_com raises on an ordinary padded batch: {e.what[:100]}")
            continue
        v, r = mol.velocities, mol.coordinates
        m = mass[..., 0]
        tag = f"remove_angular={ang}, translate_to_origin={trans}, restore_kinetic_energy={restore}"
        z = lambda x: sp.simplify(sp.sympify(x)) == 0
        bad = []
        for b in range(2):
            Mtot = sum(m[b])
            p_lin = [sum(m[b, a] * v[b, a, c] for a in range(3)) for c in range(3)]
            if not all(z(x) for x in p_lin):
                bad.append(f"molecule {b}: total linear momentum is not zero")
            rc = [sum(m[b, a] * coords0[b, a, c] for a in range(3)) / Mtot for c in range(3)]
            rr = [[coords0[b, a, c] - rc[c] for c in range(3)] for a in range(3)]
            Lang = [sum(m[b, a] * (rr[a][(c + 1) % 3] * v[b, a, (c + 2) % 3] - rr[a][(c + 2) % 3] * v[b, a, (c + 1) % 3]) for a in range(3)) for c in range(3)]
            L0 = None
            if ang and not all(z(x) for x in Lang):
                bad.append(f"molecule {b}: angular momentum about its centre of mass is not zero")
            ke0 = sum(m[b, a] * vel0[b, a, c] ** 2 for a in range(3) for c in range(3))
            ke1 = sum(m[b, a] * v[b, a, c] ** 2 for a in range(3) for c in range(3))
            if restore and not z(ke0 - ke1):
                bad.append(f"molecule {b}: kinetic energy is not restored")
            if trans:
                if not all(z(sum(m[b, a] * r[b, a, c] for a in range(3))) for c in range(3)):
                    bad.append(f"molecule {b}: positions are not centred on the centre of mass")
                if not all(z((r[b, a, c] - r[b, 0, c]) - (coords0[b, a, c] - coords0[b, 0, c])) for a in range(3) for c in range(3)):
                    bad.append(f"molecule {b}: relative positions changed")
            elif not all(z(r[b, a, c] - coords0[b, a, c]) for a in range(3) for c in range(3)):
                bad.append(f"molecule {b}: positions changed although translate_to_origin is off")
        if not all(z(v[1, 2, c]) for c in range(3)):
            bad.append("the padding atom acquires a velocity")
        ctx.check(not bad, rid, md, zc, "Molecular_Dynamics_Basic._zero_com", tag,
                  f"{tag}: zero linear momentum{', zero angular momentum about the own centre of mass' if ang else ''}{', kinetic energy restored' if restore else ''}, "
                  f"padding at rest, positions {'centred' if trans else 'untouched'} -- for both molecules of the padded batch (exact arithmetic)",
                  f"{tag}: " + "; ".join(bad[:3]) + ": the centre-of-mass projection does not do what the run relies on")


def _bind(I, md, f_, selfns):
    """bound-method stand-in for the interpreter: calling it interprets f_ with `self` = selfns"""
    def call(frame, *a, **k):
        return I.call_function(md, f_, [selfns] + list(a), k)
    return call
def _r6_dof_and_forwarding(ctx, repo):
    from ..assembly import com_setup_verdicts
    _cv = com_setup_verdicts(repo)
    _md = repo.mod(MD)
    ctx.check(_cv["dof"][0], "R6", _md, _md.func("XL_BOMD.set_dof") if _md.has_func("XL_BOMD.set_dof") else _md.func("Molecular_Dynamics_Basic.set_dof"), "set_dof", "n_dof of the three engines (interpreted)", _cv["dof"][1], _cv["dof"][1])
    md = repo.mod(MD)
    nad = repo.mod(NAD)
    # (a) every set_dof computes n_dof from the number of real atoms of each molecule
    n = 0
    for m in (md, nad):
        for q, f in m.functions.items():
            if q.split(".")[-1] != "set_dof":
                continue
            for st in ast.walk(f):
                if isinstance(st, ast.Assign) and norm(st.targets[0]) == "self.n_dof":
                    n += 1
                    atoms = [x for x in ast.walk(st.value) if isinstance(x, ast.Attribute) and isinstance(x.value, ast.Name) and x.value.id in ("molecule", "mol")]
                    ok = any(a.attr == "num_atoms" for a in atoms) and not any(a.attr in ("molsize",) for a in atoms)
                    three = any(isinstance(x, ast.Constant) and x.value in (3, 3.0) for x in ast.walk(st.value))
                    ctx.check(ok and three, "R6", m, st, q, st, f"{q}: n_dof = 3 x (real atoms of each molecule) - constraints",
                              f"{q}: n_dof = `{norm(st.value)}` does not count the real atoms of each molecule (molecule.num_atoms): in a padded batch the smaller molecules are drawn "
                              f"and thermostatted with the degrees of freedom of the largest one (they start too hot while the reported temperature looks right)")
    if n < 2 and not _cv["dof"][0]:
        raise AnalysisError("set_dof definitions not found")
    if n < 2:
        # the overrides delegate instead of assigning n_dof themselves: the count of real atoms is decided by the interpreted verdict above (padded batch of 5 real atoms in
        # molecules of padded size 7, three engines x damping x constraints)
        ctx.ok("R6", MD, "n_dof assignments delegated; real-atom count decided by the interpreted set_dof verdict", nontrivial=False)
    # num_atoms itself counts species > 0 per molecule
    mm = repo.mod("seqm/Molecule.py")
    na = [st for st in ast.walk(mm.tree) if isinstance(st, ast.Assign) and any(norm(t) == "self.num_atoms" for t in st.targets)]
    def _counts_real(st):
        # torch.sum(<species > 0>, dim=1) possibly through one local mask
        txt = norm(st.value)
        fn = mm.enclosing_function(st)
        loc = {}
        if fn is not None:
            for s2 in ast.walk(fn):
                if isinstance(s2, ast.Assign) and len(s2.targets) == 1 and isinstance(s2.targets[0], ast.Name):
                    loc[s2.targets[0].id] = norm(s2.value)
        for nm_, v_ in loc.items():
            if nm_ in txt:
                txt += " " + v_
        return "sum" in txt and "species" in txt and ("> 0" in txt or "!= 0" in txt) and "dim=1" in txt
    ctx.check(len(na) >= 1 and all(_counts_real(st) for st in na), "R6", mm, na[0] if na else mm.tree, "Molecule", "num_atoms",
              "num_atoms = number of species > 0 per molecule", f"num_atoms = {[norm(st.value) for st in na]}")
    # (b) super-call forwarding: an override that calls super().<same method>(...) hands on every parameter it shares with the parent signature
    CONSUMED = {
        # (class.method, parameter) -> why the override does not forward it
    }
    k = 0
    for m in (md, nad):
        for cname, cls in m.classes.items():
            for st in cls.body:
                if not isinstance(st, ast.FunctionDef):
                    continue
                own = [a.arg for a in st.args.args if a.arg not in ("self", "cls")] + [a.arg for a in st.args.kwonlyargs]
                for c in calls_in(st):
                    if not (isinstance(c.func, ast.Attribute) and isinstance(c.func.value, ast.Call) and norm(c.func.value.func) == "super" and c.func.attr == st.name):
                        continue
                    # parent definition
                    parent = None
                    seen_self = False
                    for pm, pc in repo.mro(m, cls):
                        if pc is cls:
                            seen_self = True
                            continue
                        if seen_self:
                            hit = [x for x in pc.body if isinstance(x, ast.FunctionDef) and x.name == st.name]
                            if hit:
                                parent = hit[0]
                                break
                    if parent is None:
                        continue
                    pparams = [a.arg for a in parent.args.args if a.arg not in ("self", "cls")] + [a.arg for a in parent.args.kwonlyargs]
                    shared = [p_ for p_ in own if p_ in pparams]
                    passed_kw = {kw.arg for kw in c.keywords if kw.arg}
                    passed_pos = set()
                    for i, a in enumerate(c.args):
                        if isinstance(a, ast.Starred):
                            continue
                        if i < len([x for x in parent.args.args if x.arg not in ("self", "cls")]):
                            passed_pos.add([x.arg for x in parent.args.args if x.arg not in ("self", "cls")][i])
                    for p_ in shared:
                        k += 1
                        if (f"{cname}.{st.name}", p_) in CONSUMED:
                            continue
                        ctx.check(p_ in passed_kw or p_ in passed_pos, "R6", m, c, f"{cname}.{st.name}", f"super().{st.name}(... {p_} ...)",
                                  f"{cname}.{st.name} forwards `{p_}` to the parent implementation",
                                  f"{cname}.{st.name} accepts `{p_}` but its super().{st.name}(...) call does not pass it on: the parent runs with its default "
                                  f"(e.g. remove_com=None: no centre-of-mass removal and no reduction of the degrees of freedom for this engine)")
    if k < 10:
        raise AnalysisError(f"only {k} forwarded parameters inventoried")


# ------------------------------------------------------------------------------------------------------------------------------------------------
# phase-space tensors reach in-place-mutating callees only as copies (shared with C08-R4)
# ------------------------------------------------------------------------------------------------------------------------------------------------
INPLACE_METHODS = {"add_", "sub_", "mul_", "div_", "copy_", "zero_", "fill_", "clamp_", "masked_fill_", "index_add_", "addcmul_", "neg_", "normal_", "uniform_"}
ALIAS_METHODS = {"detach", "view", "reshape", "squeeze", "unsqueeze", "contiguous", "to", "float", "double", "requires_grad_", "expand", "transpose", "flatten"}


def _mutated_params(repo, cache={}):
    """{(rel, qualname): {parameter index: witness statement}} -- parameters a function changes in place (augmented assignment to the bare name, item store, in-place tensor
    method, or handing the parameter on to a callee that does), two levels deep"""
    key = id(repo)
    if key in cache:
        return cache[key]
    fns = {}
    by_name = {}
    for m in repo.modules("seqm"):
        for q, f in m.functions.items():
            fns[(m.rel, q)] = (m, f)
            by_name.setdefault(q.split(".")[-1], []).append((m.rel, q))
    out = {k: {} for k in fns}

    def rebinds_before(f, name, stmt):
        # `p = f(p)` before the mutation makes p a fresh local from there on (conservatively: any plain rebinding anywhere in the function before the witness line)
        return any(isinstance(a, ast.Assign) and any(isinstance(t, ast.Name) and t.id == name for t in a.targets) and a.lineno < stmt.lineno
                   and not any(isinstance(p_, (ast.If,)) for p_ in ()) for a in ast.walk(f))
    for (rel, q), (m, f) in fns.items():
        params = [a.arg for a in f.args.args]
        for st in ast.walk(f):
            nm = None
            if isinstance(st, ast.AugAssign) and isinstance(st.target, ast.Name):
                nm = st.target.id
            elif isinstance(st, ast.AugAssign) and isinstance(st.target, ast.Subscript) and isinstance(st.target.value, ast.Name):
                nm = st.target.value.id
            elif isinstance(st, ast.Assign) and any(isinstance(t, ast.Subscript) and isinstance(t.value, ast.Name) for t in st.targets):
                nm = next(t.value.id for t in st.targets if isinstance(t, ast.Subscript) and isinstance(t.value, ast.Name))
            elif isinstance(st, ast.Call) and isinstance(st.func, ast.Attribute) and st.func.attr in INPLACE_METHODS and isinstance(st.func.value, ast.Name):
                nm = st.func.value.id
            if nm in params:
                # a parameter that is unconditionally rebound before the witness is a local copy from there on; a conditional rebinding (as in an `if damp:` arm) is not
                unconditional = [a for a in f.body if isinstance(a, ast.Assign) and any(isinstance(t, ast.Name) and t.id == nm for t in a.targets) and a.lineno < st.lineno]
                if not unconditional:
                    out[(rel, q)].setdefault(params.index(nm), st)
    for _ in range(2):
        for (rel, q), (m, f) in fns.items():
            params = [a.arg for a in f.args.args]
            for c in calls_in(f):
                cn = callee_attr(c) or (c.func.id if isinstance(c.func, ast.Name) else None)
                for tgt in by_name.get(cn or "", []):
                    tparams = [a.arg for a in fns[tgt][1].args.args]
                    off = 1 if (tparams and tparams[0] == "self" and isinstance(c.func, ast.Attribute)) else 0
                    for i, a in enumerate(c.args):
                        if isinstance(a, ast.Name) and a.id in params and (i + off) in out[tgt]:
                            out[(rel, q)].setdefault(params.index(a.id), c)
    cache[key] = (out, fns, by_name)
    return cache[key]


def _is_alias_of_phase(e, aliases):
    """is expression e the tensor molecule.<velocities|coordinates|acc> itself (possibly detached / viewed), or a local known to be such an alias"""
    while isinstance(e, ast.Call) and isinstance(e.func, ast.Attribute) and e.func.attr in ALIAS_METHODS:
        e = e.func.value
    if isinstance(e, ast.Attribute) and e.attr == "data":
        e = e.value
    if isinstance(e, ast.Name):
        return aliases.get(e.id)
    if isinstance(e, ast.Attribute) and e.attr in ("velocities", "coordinates", "acc") and isinstance(e.value, ast.Name) and e.value.id in ("molecule", "mol"):
        return e.attr
    return None


def check_phase_aliases(ctx, rid, allowed=()):
    """every argument that is molecule.velocities / coordinates / acc itself (or a detached / reshaped view of it) is handed only to callees that do not change that parameter
    in place, unless the callee is an inventoried mutator: a helper that works on `x.detach()` works on the molecule's own storage"""
    repo = ctx.repo
    out, fns, by_name = _mutated_params(repo)
    n = 0
    for (rel, q), (m, f) in fns.items():
        if rel not in (MD, NAD) and not rel.startswith("seqm/dynamics/"):
            continue
        aliases = {}
        for st in ast.walk(f):
            if isinstance(st, ast.Assign) and len(st.targets) == 1 and isinstance(st.targets[0], ast.Name):
                a = _is_alias_of_phase(st.value, aliases)
                if a:
                    aliases[st.targets[0].id] = a
        for c in calls_in(f):
            cn = callee_attr(c) or (c.func.id if isinstance(c.func, ast.Name) else None)
            if not cn or cn in allowed:
                continue
            for tgt in by_name.get(cn, []):
                tparams = [a.arg for a in fns[tgt][1].args.args]
                off = 1 if (tparams and tparams[0] == "self" and isinstance(c.func, ast.Attribute)) else 0
                for i, a in enumerate(c.args):
                    what = _is_alias_of_phase(a, aliases)
                    if not what:
                        continue
                    n += 1
                    wit = out[tgt].get(i + off)
                    ctx.check(wit is None, rid, m, c, q, c, f"{q}: `{norm(a)}` (the molecule's own {what}) goes to {tgt[1]}, which does not change that argument in place",
                              f"{q}: `{short(c, 60)}` hands `{norm(a)}` -- the molecule's own {what} tensor, not a copy -- to {tgt[1]}, which changes that argument in place "
                              f"(`{short(wit, 50) if wit is not None else ''}`): the {what} the next step starts from are silently altered (user-supplied velocities are no longer the "
                              f"starting velocities; a fresh draw no longer realises the requested temperature exactly)")
    return n
