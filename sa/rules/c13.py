"""C13 -- initial conditions, centre-of-mass handling and seeding behave as documented (structural clauses)."""
from __future__ import annotations

import ast

from ..cfg import build_cfg
from ..exprs import to_sympy
from ..guards import controlling
from ..loader import AnalysisError, attr_chain, call_name, callee_attr, calls_in, names_in, norm, short
from ..mdstep import MD, NAD, ZeroOnPad, local_defs, md_env, md_funcs, md_symbols, mutated_phase_attr

LEVEL = "other"
EXPLANATION = (
    "R1 user-supplied velocities are the starting velocities: on every path of initialize_velocity on which "
    "torch.is_tensor(molecule.velocities) held, no statement with a (transitive) write effect on molecule.velocities executes; "
    "R2 the seed dominates every draw: torch.manual_seed(int(seed)) and its CUDA twin precede initialize() and the step loop on "
    "every path with a seed, the argument is the seed parameter, no other manual_seed is reachable from the MD modules, every "
    "draw uses the global generator; R3 exact-rescale chain of the Maxwell-Boltzmann draw (amplitude sqrt(T*mass_inverse)*VEL_SCALE, "
    "Ek -> T1 -> *sqrt(T/T1) -> COM removal with kinetic-energy restoration), n_dof set before, T=0 short-circuit; R4 padding "
    "atoms stay at rest: abstract interpretation over the lattice {zero-on-padding, any} of every in-place velocity update in the "
    "MD modules; R5 COM removal: mode validated with a raise, COM/angular momentum expressions, periodic removal keeps the "
    "kinetic energy. The realised temperature value is not decided."
)
ASSUMPTIONS = ["molecule.mass, mass_inverse and force are zero on padding rows (Molecule.__init__ / C01-R4)"]
TRUSTED = ["mod-ref summary of velocity writers within MolecularDynamics.py", "ZeroOnPad abstract domain"]

VEL_WRITERS_TRANSITIVE = {"_zero_com", "_apply_langevin_thermostat", "initialize_velocity", "_rescale_velocity_along_nac"}


def _writes_velocities(md, func_name, depth=0, seen=None) -> bool:
    """Transitive mod-ref: does method `func_name` (any class in the MD module) write molecule.velocities?"""
    seen = seen or set()
    if func_name in seen or depth > 4:
        return False
    seen.add(func_name)
    for q, f in md.functions.items():
        if q.split(".")[-1] != func_name or "<locals>" in q:
            continue
        for st in ast.walk(f):
            if isinstance(st, ast.stmt):
                if any(a == "velocities" for a, _, _ in mutated_phase_attr(st)):
                    return True
        for c in calls_in(f):
            if isinstance(c.func, ast.Attribute) and isinstance(c.func.value, ast.Name) and c.func.value.id == "self":
                if _writes_velocities(md, c.func.attr, depth + 1, seen):
                    return True
    return False


def run(ctx):
    import sympy as sp
    repo = ctx.repo
    md, nad = repo.mod(MD), repo.mod(NAD)
    sym = md_symbols()
    ctx.rule("R1", "user-supplied velocities are untouched before the first step")
    ctx.rule("R2", "seed dominates every random draw of a run")
    ctx.rule("R3", "exact-rescale chain of the Maxwell-Boltzmann draw")
    ctx.rule("R4", "padding atoms stay at rest (ZeroOnPad abstract interpretation of every in-place velocity update)")
    ctx.rule("R5", "centre-of-mass handling: validated mode, momentum expressions, kinetic energy restored in periodic removal")
    ctx.rule("R6", "degrees of freedom count real atoms (num_atoms, not the padded molsize); overrides forward their arguments to the parent implementation")
    _r6_dof_and_forwarding(ctx, repo)

    # ---------------------------------------------------------------- R1
    iv = md.func("Molecular_Dynamics_Basic.initialize_velocity")
    g = build_cfg(iv)
    user_ifs = [n for n in g.nodes if n.kind == "if" and norm(n.expr).replace(" ", "") == "torch.is_tensor(molecule.velocities)"]
    if not user_ifs:
        raise AnalysisError("initialize_velocity: user-velocity branch not found")
    for n in user_ifs:
        true_succ = [b for b, lab in g.succ[n.id] if lab == "true"]
        region = g.reachable(true_succ, include_src=True)
        offenders = []
        for i in region:
            x = g.nodes[i]
            if x.kind != "stmt":
                continue
            direct = [a for a, _, _ in mutated_phase_attr(x.stmt) if a == "velocities"]
            trans = [callee_attr(c) for c in calls_in(x.stmt) if isinstance(c.func, ast.Attribute) and isinstance(c.func.value, ast.Name)
                     and c.func.value.id == "self" and _writes_velocities(md, c.func.attr)]
            if direct or trans:
                offenders.append(x.stmt)
        ctx.check(not offenders, "R1", md, offenders[0] if offenders else n.stmt, "Molecular_Dynamics_Basic.initialize_velocity",
                  offenders[0] if offenders else n.expr,
                  "velocities supplied by the user reach the first step unmodified",
                  f"user-supplied velocities are modified before step 0 by `{short(offenders[0], 80) if offenders else ''}` "
                  f"(documentation: supplied velocities are used directly)")
    # initialize(): between entry and the first force evaluation nothing else writes velocities except initialize_velocity
    ini = md.func("Molecular_Dynamics_Basic.initialize")
    for st in ast.walk(ini):
        if isinstance(st, ast.stmt) and not isinstance(st, (ast.If, ast.With, ast.FunctionDef, ast.For, ast.While, ast.Try)):
            direct = [a for a, _, _ in mutated_phase_attr(st) if a == "velocities"]
            trans = [callee_attr(c) for c in calls_in(st) if isinstance(c.func, ast.Attribute) and isinstance(c.func.value, ast.Name)
                     and c.func.value.id == "self" and c.func.attr != "initialize_velocity" and _writes_velocities(md, c.func.attr)]
            if direct or trans:
                ctx.fail("R1", md, st, "Molecular_Dynamics_Basic.initialize", st, "initialize() alters velocities outside initialize_velocity")
    ctx.check(True, "R1", md, ini, "Molecular_Dynamics_Basic.initialize", ini.name, "initialize() writes velocities only through initialize_velocity")
    # Langevin/XL/NAD initialize overrides: no velocity writes
    for rel, q in ((MD, "Molecular_Dynamics_Langevin.initialize"), (MD, "XL_BOMD.initialize"), (MD, "XL_ESMD.initialize"), (NAD, "NonadiabaticDynamicsBase.initialize")):
        m = repo.mod(rel)
        f = m.func(q)
        bad = [st for st in ast.walk(f) if isinstance(st, ast.stmt) and not isinstance(st, (ast.If, ast.With, ast.For, ast.While, ast.Try, ast.FunctionDef))
               and any(a in ("velocities",) for a, _, _ in mutated_phase_attr(st))]
        ctx.check(not bad, "R1", m, bad[0] if bad else f, q, bad[0] if bad else f.name, f"{q} does not write velocities",
                  f"{q} writes velocities during initialisation: `{short(bad[0], 60) if bad else ''}`")

    # ---------------------------------------------------------------- R2
    rn = md.func("Molecular_Dynamics_Basic.run")
    g = build_cfg(rn)
    seed_param = "seed"
    if seed_param not in [a.arg for a in rn.args.args]:
        raise AnalysisError("run(): no seed parameter")
    seed_ifs = [n for n in g.nodes if n.kind == "if" and norm(n.expr).replace(" ", "") == "seedisnotNone"]
    cpu = [n for n in g.nodes if n.kind == "stmt" and any(call_name(c) == "torch.manual_seed" for c in calls_in(n.stmt))]
    cuda = [n for n in g.nodes if n.kind == "stmt" and any(call_name(c) == "torch.cuda.manual_seed_all" for c in calls_in(n.stmt))]
    inits = [n for n in g.nodes if n.kind == "stmt" and any(callee_attr(c) == "initialize" for c in calls_in(n.stmt))]
    steps = [n for n in g.nodes if n.kind == "stmt" and any(callee_attr(c) == "_do_integrator_step" for c in calls_in(n.stmt))]
    ok_struct = bool(seed_ifs and cpu and cuda and inits and steps)
    ctx.check(ok_struct, "R2", md, rn, "Molecular_Dynamics_Basic.run", "seed handling", "run() seeds the CPU and CUDA generators when a seed is given",
              "run() does not seed both generators under `seed is not None`")
    if ok_struct:
        sif = seed_ifs[0]
        false_edges_removed = {"false"}
        for target in inits + steps:
            # all paths entry->target must pass the seed test
            ctx.check(g.must_pass(g.entry, target.id, {sif.id}), "R2", md, target.stmt, "Molecular_Dynamics_Basic.run", target.stmt,
                      "the seed test precedes initialisation and the step loop", "initialize()/step loop reachable before the seed is applied")
            # on the seeded branch both generators are seeded before the target
            true_succ = [b for b, lab in g.succ[sif.id] if lab == "true"]
            for kind, nodes in (("CPU", cpu), ("CUDA", cuda)):
                reach = g.reachable(true_succ, avoid={n.id for n in nodes}, include_src=True)
                ctx.check(target.id not in reach, "R2", md, target.stmt, "Molecular_Dynamics_Basic.run", target.stmt,
                          f"{kind} generator seeded before `{short(target.stmt, 40)}` on every seeded path",
                          f"with a seed given, `{short(target.stmt, 50)}` can run before the {kind} generator is seeded")
        for n in cpu + cuda:
            c = [c for c in calls_in(n.stmt) if (call_name(c) or "").endswith(("manual_seed", "manual_seed_all"))][0]
            a = c.args[0] if c.args else None
            core = a.args[0] if isinstance(a, ast.Call) and isinstance(a.func, ast.Name) and a.func.id == "int" and a.args else a
            ctx.check(isinstance(core, ast.Name) and core.id == seed_param, "R2", md, c, "Molecular_Dynamics_Basic.run", c,
                      "the generator is seeded with the caller's seed", f"generator seeded with `{norm(a)}` instead of the seed argument")
            ctrl = controlling(md, n.stmt)
            ctx.check(any(p and norm(x).replace(" ", "") == "seedisnotNone" for x, p, _ in ctrl) and len(ctrl) == 1, "R2", md, c,
                      "Molecular_Dynamics_Basic.run", c, "seeding depends only on a seed being given", "seeding is under an extra condition")
    # no other seeding anywhere on the MD path
    n_seed = 0
    for m in repo.modules("seqm"):
        for c in calls_in(m.tree):
            cn = call_name(c) or ""
            if cn.endswith(("manual_seed", "manual_seed_all", ".seed")) and cn.startswith(("torch", "np.random", "numpy.random", "random")):
                n_seed += 1
                q = m.qualname_of(c)
                if m.rel in (MD,) and q == "Molecular_Dynamics_Basic.run":
                    continue
                on_md_path = m.rel in (MD, NAD, "seqm/basics.py", "seqm/ElectronicStructure.py", "seqm/Molecule.py", "seqm/seqm_functions/scf_loop.py")
                ctx.check(not on_md_path, "R2", m, c, q, c, f"seeding call in {m.rel}::{q} is off the MD path (debug helper)",
                          f"`{short(c, 50)}` re-seeds the generator on the MD path: the user's seed no longer determines the trajectory")
    if n_seed < 2:
        raise AnalysisError("seeding calls not found")

    # ---------------------------------------------------------------- R3
    g = build_cfg(iv)
    defs = local_defs(iv)
    env = md_env(sym)
    draw = [st for st in ast.walk(iv) if isinstance(st, ast.Assign) and norm(st.targets[0]) == "molecule.velocities"
            and any((call_name(c) or "").startswith("torch.randn") for c in calls_in(st.value))]
    ctx.check(len(draw) == 1, "R3", md, iv, "Molecular_Dynamics_Basic.initialize_velocity", "draw", "exactly one Maxwell-Boltzmann draw",
              f"{len(draw)} random velocity draws found")
    if draw:
        d = draw[0]
        R = sp.Symbol("R", real=True)
        f = md_funcs()
        f["torch.randn_like"] = lambda a, n: R
        f["torch.randn"] = lambda a, n: R

        def atom(n):
            if isinstance(n, ast.Name) and n.id in defs and len(defs[n.id]) == 1:
                return to_sympy(defs[n.id][0], env, f, atom)
            return None
        e = to_sympy(d.value, env, f, atom)
        want = R * sp.sqrt(sym["Temp"] * sym["minv"]) * sym["VEL"]
        ctx.check(sp.simplify(e - want) == 0, "R3", md, d, "Molecular_Dynamics_Basic.initialize_velocity", d,
                  "draw amplitude = sqrt(Temp * mass_inverse) * VEL_SCALE per atom", f"draw is {e}, expected {want}")
        rn_calls = [c for c in calls_in(d.value) if (call_name(c) or "").startswith("torch.randn")]
        ctx.check(norm(rn_calls[0].args[0]) == "molecule.coordinates" and not any(k.arg == "generator" for k in rn_calls[0].keywords), "R3", md, d,
                  "Molecular_Dynamics_Basic.initialize_velocity", d, "one independent normal per coordinate from the global generator",
                  "draw shape/generator changed")
        # chain after the draw: Ek -> T1 -> alpha -> mul_ -> _zero_com
        dn = g.nodes_of(d)[0]
        ek = [n for n in g.nodes if n.kind == "stmt" and isinstance(n.stmt, ast.Assign) and norm(n.stmt.value) == "self._kinetic_energy(molecule)"]
        t1 = [n for n in g.nodes if n.kind == "stmt" and isinstance(n.stmt, ast.Assign) and callee_attr(n.stmt.value) == "_calc_temperature"
              if isinstance(n.stmt.value, ast.Call)]
        mul = [n for n in g.nodes if n.kind == "stmt" and any(a == "velocities" and h == "mul_" for a, h, _ in mutated_phase_attr(n.stmt))]
        zc = [n for n in g.nodes if n.kind == "stmt" and any(callee_attr(c) == "_zero_com" for c in calls_in(n.stmt)) and n.id in g.reachable(dn)]
        chain_ok = bool(ek and t1 and mul and zc)
        if chain_ok:
            seq = [dn, ek[0].id, t1[0].id, mul[0].id]
            for a, b in zip(seq, seq[1:]):
                chain_ok = chain_ok and g.dominates(a, b) and b in g.reachable(a)
            # rescale factor
            mc = [x for _, h, x in mutated_phase_attr(mul[0].stmt) if h == "mul_"][0]
            T1 = sp.Symbol("T1", positive=True)
            env2 = dict(env)
            env2[norm(t1[0].stmt.targets[0])] = T1
            try:
                fac = to_sympy(mc.args[0], env2, md_funcs(), lambda n: (to_sympy(defs[n.id][0], env2, md_funcs()) if isinstance(n, ast.Name) and n.id in defs and len(defs[n.id]) == 1 else None))
                chain_ok = chain_ok and sp.simplify(fac - sp.sqrt(sym["Temp"] / T1)) == 0
            except AnalysisError:
                chain_ok = False
            chain_ok = chain_ok and norm(t1[0].stmt.value.args[0]) == norm(ek[0].stmt.targets[0])
        ctx.check(chain_ok, "R3", md, d, "Molecular_Dynamics_Basic.initialize_velocity", "draw -> Ek -> T1 -> mul_(sqrt(Temp/T1))",
                  "drawn velocities are rescaled by sqrt(Temp/T1) with T1 measured from the drawn velocities",
                  "exact rescale chain (draw -> kinetic energy -> temperature -> *sqrt(Temp/T1)) is broken")
        for z in zc:
            c = [c for c in calls_in(z.stmt) if callee_attr(c) == "_zero_com"][0]
            kws = {k.arg: norm(k.value) for k in c.keywords}
            ctx.check(kws.get("restore_kinetic_energy", "True") == "True" and (not mul or z.id in g.reachable(mul[0].id)), "R3", md, c,
                      "Molecular_Dynamics_Basic.initialize_velocity", c, "COM removal after the rescale restores the kinetic energy (temperature stays exact)",
                      "COM removal of freshly drawn velocities does not restore the kinetic energy / precedes the rescale")
    # n_dof guard and T == 0 shortcut
    guard = [n for n in g.nodes if n.kind == "if" and norm(n.expr).replace(" ", "") == "self.n_dofisNone"]
    ctx.check(bool(guard) and any(isinstance(g.nodes[b].stmt, ast.Raise) for b, lab in g.succ[guard[0].id] if lab == "true"), "R3", md, iv,
              "Molecular_Dynamics_Basic.initialize_velocity", "n_dof guard", "velocity draw refuses to run before n_dof is set", "n_dof guard removed")
    zero = [st for st in ast.walk(iv) if isinstance(st, ast.Assign) and norm(st.targets[0]) == "molecule.velocities" and "zeros_like" in norm(st.value)]
    z_ok = bool(zero) and any(p and norm(a).replace(" ", "") in ("self.Temp==0.0", "self.Temp==0") for a, p, _ in controlling(md, zero[0]))
    ctx.check(z_ok, "R3", md, zero[0] if zero else iv, "Molecular_Dynamics_Basic.initialize_velocity", zero[0] if zero else "Temp==0",
              "Temp == 0 gives exactly zero velocities", "zero-temperature start is not exactly at rest")

    # ---------------------------------------------------------------- R4
    n_up = 0
    for rel in (MD, NAD):
        m = repo.mod(rel)
        for q, f in m.functions.items():
            if "<locals>" in q:
                continue
            cls = m.parents.get(f)
            fields = {}
            if isinstance(cls, ast.ClassDef):
                for mm, c in repo.mro(m, cls):
                    for st in ast.walk(c):
                        if isinstance(st, ast.Assign) and len(st.targets) == 1 and isinstance(st.targets[0], ast.Attribute) \
                                and norm(st.targets[0].value) == "self":
                            fields.setdefault(st.targets[0].attr, st.value)
            zp = ZeroOnPad(f, fields)
            done = set()
            for st in ast.walk(f):
                if not isinstance(st, ast.stmt):
                    continue
                for attr, how, node in mutated_phase_attr(st):
                    if attr != "velocities" or id(node) in done or m.enclosing_function(node) is not f:
                        continue
                    done.add(id(node))
                    if how in ("mul_", "zero_", "div_", "neg_"):
                        n_up += 1
                        ctx.ok("R4", f"{m.rel}:{node.lineno} {q}", f"`{short(node, 50)}` scales velocities: zero rows stay zero", nontrivial=False)
                        continue
                    if how in ("add_", "sub_"):
                        val = node.args[0]
                    elif how == "assign":
                        val = node.value
                        if isinstance(val, ast.Constant) and val.value is None:
                            continue
                        if "to(device)" in norm(val) or "mol_ckpt" in norm(val):
                            continue  # checkpoint restore
                    elif how == "store[]":
                        val = node.value
                    else:
                        ctx.fail("R4", m, node, q, node, f"unclassified in-place velocity update `{how}`")
                        continue
                    n_up += 1
                    ctx.check(zp.is_z(val), "R4", m, node, q, node,
                              f"`{short(node, 60)}` adds a value that is zero on padding rows",
                              f"`{short(node, 80)}` changes the velocity of padding atoms: `{short(val, 60)}` is not zero on padding rows "
                              f"(no factor of mass_inverse / force / a real-atom mask)")
    if n_up < 12:
        raise AnalysisError(f"only {n_up} in-place velocity updates found")

    # ---------------------------------------------------------------- R5
    bi = md.func("Molecular_Dynamics_Basic.initialize")
    g = build_cfg(bi)
    raises = [n for n in g.nodes if n.kind == "stmt" and isinstance(n.stmt, ast.Raise) and "COM" in norm(n.stmt)]
    ok = False
    if raises:
        ctrl = controlling(md, raises[0].stmt)
        ok = any(p and isinstance(a, ast.Compare) and isinstance(a.ops[0], ast.NotIn) and norm(a.left) == "mode"
                 and {e.value for e in a.comparators[0].elts if isinstance(e, ast.Constant)} == {"linear", "angular"} for a, p, _ in ctrl)
        sd = [n.id for n in g.nodes if n.kind == "stmt" and any(callee_attr(c) == "set_dof" for c in calls_in(n.stmt))]
        ok = ok and sd and all(g.must_pass(g.entry, s, {x.id for x in g.nodes if x.kind == "if" and "mode not in" in norm(x.expr)} |
                                           {x.id for x in g.nodes if x.kind == "if" and norm(x.expr) == "self.do_remove_com"}) for s in sd)
    ctx.check(bool(ok), "R5", md, bi, "Molecular_Dynamics_Basic.initialize", "mode not in ('linear','angular') -> raise",
              "unknown COM removal mode raises before anything is computed", "COM mode validation missing or not a raise on exactly ('linear','angular')")
    ang = [st for st in ast.walk(bi) if isinstance(st, ast.Assign) and norm(st.targets[0]) == "self.remove_com_angular"]
    ctx.check(bool(ang) and norm(ang[0].value).replace(" ", "") == "mode=='angular'", "R5", md, bi, "Molecular_Dynamics_Basic.initialize", "remove_com_angular",
              "angular removal iff mode == 'angular'", "remove_com_angular no longer follows the mode")
    # periodic removal in run()
    for c in calls_in(rn):
        if callee_attr(c) == "_zero_com":
            kws = {k.arg: norm(k.value) for k in c.keywords}
            ctx.check(kws.get("remove_angular") == "self.remove_com_angular" and kws.get("restore_kinetic_energy", "True") == "True"
                      and kws.get("translate_to_origin", "False") == "False", "R5", md, c, "Molecular_Dynamics_Basic.run", c,
                      "periodic COM removal honours the mode and restores the kinetic energy",
                      f"periodic COM removal called with {kws}")
            ctrl = controlling(md, md.enclosing_stmt(c))
            ctx.check(any(p and norm(a) == "self.do_remove_com" for a, p, _ in ctrl), "R5", md, c, "Molecular_Dynamics_Basic.run", c,
                      "periodic COM removal only when requested", "COM removal runs without being requested")
    check_zero_com(ctx, md, "R5")


def check_zero_com(ctx, md, rid):
    """COM projection: momentum expressions, COM-relative positions, kinetic-energy restoration (shared with C08)."""
    zc = md.func("Molecular_Dynamics_Basic._zero_com")
    defs = local_defs(zc)
    txt = {k: norm(v[0]).replace(" ", "") for k, v in defs.items() if len(v) == 1}
    ctx.check(txt.get("v_com") == "torch.sum(mass*molecule.velocities,dim=1,keepdim=True)/M" and txt.get("M") == "torch.sum(mass,dim=1,keepdim=True)"
              and txt.get("mass") == "molecule.mass", rid, md, zc, "Molecular_Dynamics_Basic._zero_com", "v_com",
              "COM velocity = sum(m v)/sum(m) per molecule", f"COM velocity expression changed: v_com={txt.get('v_com')}, M={txt.get('M')}")
    ctx.check(txt.get("r_com") == "torch.sum(mass*molecule.coordinates,dim=1,keepdim=True)/M", rid, md, zc, "Molecular_Dynamics_Basic._zero_com", "r_com",
              "COM position = sum(m r)/sum(m)", f"COM position expression changed: {txt.get('r_com')}")
    ctx.check(txt.get("L") == "torch.sum(mass*torch.linalg.cross(r_rel,molecule.velocities,dim=2),dim=1)", rid, md, zc, "Molecular_Dynamics_Basic._zero_com", "L",
              "angular momentum = sum m r x v", f"angular momentum expression changed: {txt.get('L')}")
    # positions used for the angular part are relative to the centre of mass on every path
    g = build_cfg(zc)
    rdefs = [n for n in g.nodes if n.kind == "stmt" and isinstance(n.stmt, ast.Assign) and norm(n.stmt.targets[0]) == "r_rel"]
    if not rdefs:
        raise AnalysisError("_zero_com: r_rel not found")
    shifts = {n.id for n in g.nodes if n.kind == "stmt" and any(a == "coordinates" and h in ("sub_", "copy_") for a, h, _ in mutated_phase_attr(n.stmt))
              and "r_com" in norm(n.stmt) + "".join(norm(d) for d in defs.get("r_rel", []))}
    for n in rdefs:
        v = norm(n.stmt.value).replace(" ", "")
        rel_ok = v == "molecule.coordinates-r_com" or (v == "molecule.coordinates" and g.dominated_by_any(n.id, shifts) and bool(shifts))
        ctx.check(rel_ok, rid, md, n.stmt, "Molecular_Dynamics_Basic._zero_com", n.stmt,
                  "inertia tensor / rotation field use positions relative to the centre of mass on every path",
                  f"r_rel = `{norm(n.stmt.value)}` is not relative to the centre of mass on every path (angular-momentum removal about "
                  f"the wrong point injects linear momentum)")
    used_r = {x.id for st in ast.walk(zc) if isinstance(st, ast.Assign) and norm(st.targets[0]) in ("L", "I") for x in ast.walk(st.value) if isinstance(x, ast.Name)}
    ctx.check("r_rel" in used_r and "molecule" not in {x for x in used_r if x == "coordinates"}, rid, md, zc, "Molecular_Dynamics_Basic._zero_com", "L, I use r_rel",
              "angular momentum and inertia tensor are built from r_rel", "angular momentum / inertia tensor no longer use COM-relative positions")
    # KE restoration: alpha = sqrt(Ek_initial/Ek_after), Ek_initial before any mutation, Ek_after after all
    muts = [n.id for n in g.nodes if n.kind == "stmt" and any(a == "velocities" and h in ("sub_", "add_") for a, h, _ in mutated_phase_attr(n.stmt))]
    # located structurally: the velocity rescale `velocities.mul_(A...)`, A = sqrt(N / D), N and D kinetic-energy measurements
    ke_nodes = {}
    for n in g.nodes:
        if n.kind == "stmt" and isinstance(n.stmt, ast.Assign) and isinstance(n.stmt.targets[0], ast.Name) and isinstance(n.stmt.value, ast.Call) \
                and callee_attr(n.stmt.value) == "_kinetic_energy":
            ke_nodes[n.stmt.targets[0].id] = n.id
    al = []
    num = den = None
    for n in g.nodes:
        if n.kind == "stmt" and isinstance(n.stmt, ast.Assign) and isinstance(n.stmt.targets[0], ast.Name) and isinstance(n.stmt.value, ast.Call) \
                and (call_name(n.stmt.value) or "") == "torch.sqrt" and n.stmt.value.args and isinstance(n.stmt.value.args[0], ast.BinOp) \
                and isinstance(n.stmt.value.args[0].op, ast.Div):
            q = n.stmt.value.args[0]
            if isinstance(q.left, ast.Name) and isinstance(q.right, ast.Name) and q.left.id in ke_nodes and q.right.id in ke_nodes:
                al.append(n)
                num, den = q.left.id, q.right.id
    scale_used = False
    if al:
        aname = al[0].stmt.targets[0].id
        for n in g.nodes:
            if n.kind == "stmt" and any(a == "velocities" and h == "mul_" for a, h, _ in mutated_phase_attr(n.stmt)) and aname in {x.id for x in ast.walk(n.stmt) if isinstance(x, ast.Name)}:
                scale_used = al[0].id in g.reachable(ke_nodes[den]) and n.id in g.reachable(al[0].id)
    e0 = [ke_nodes[num]] if num else []
    e1 = [ke_nodes[den]] if den else []
    ok = bool(muts and e0 and e1 and al and scale_used) and all(mu in g.reachable(e0[0]) and e1[0] in g.reachable(mu) for mu in muts) \
        and not any(e0[0] in g.reachable(mu) for mu in muts) \
        and any(p and norm(a) == "restore_kinetic_energy" for a, p, _ in controlling(md, al[0].stmt))
    ctx.check(bool(ok), rid, md, zc, "Molecular_Dynamics_Basic._zero_com", "alpha = sqrt(Ek_initial / Ek_after)",
              "kinetic energy measured before and after the projection, velocities rescaled by sqrt(Ek_initial/Ek_after)",
              "kinetic-energy restoration of COM removal is broken (order of measurements or rescale factor)")
    dflt = {a.arg: norm(d) for a, d in zip(zc.args.args[-len(zc.args.defaults):], zc.args.defaults)}
    ctx.check(dflt.get("restore_kinetic_energy") == "True", rid, md, zc, "Molecular_Dynamics_Basic._zero_com", "defaults",
              "restore_kinetic_energy defaults to True", f"_zero_com defaults are {dflt}")


def _r6_dof_and_forwarding(ctx, repo):
    md = repo.mod(MD)
    nad = repo.mod(NAD)
    # (a) every set_dof computes n_dof from the number of real atoms of each molecule
    n = 0
    for m in (md, nad):
        for q, f in m.functions.items():
            if q.split(".")[-1] != "set_dof":
                continue
            for st in ast.walk(f):
                if isinstance(st, ast.Assign) and norm(st.targets[0]) == "self.n_dof":
                    n += 1
                    atoms = [x for x in ast.walk(st.value) if isinstance(x, ast.Attribute) and isinstance(x.value, ast.Name) and x.value.id in ("molecule", "mol")]
                    ok = any(a.attr == "num_atoms" for a in atoms) and not any(a.attr in ("molsize",) for a in atoms)
                    three = any(isinstance(x, ast.Constant) and x.value in (3, 3.0) for x in ast.walk(st.value))
                    ctx.check(ok and three, "R6", m, st, q, st, f"{q}: n_dof = 3 x (real atoms of each molecule) - constraints",
                              f"{q}: n_dof = `{norm(st.value)}` does not count the real atoms of each molecule (molecule.num_atoms): in a padded batch the smaller molecules are drawn "
                              f"and thermostatted with the degrees of freedom of the largest one (they start too hot while the reported temperature looks right)")
    if n < 2:
        raise AnalysisError("set_dof definitions not found")
    # num_atoms itself counts species > 0 per molecule
    mm = repo.mod("seqm/Molecule.py")
    na = [st for st in ast.walk(mm.tree) if isinstance(st, ast.Assign) and any(norm(t) == "self.num_atoms" for t in st.targets)]
    def _counts_real(st):
        # torch.sum(<species > 0>, dim=1) possibly through one local mask
        txt = norm(st.value)
        fn = mm.enclosing_function(st)
        loc = {}
        if fn is not None:
            for s2 in ast.walk(fn):
                if isinstance(s2, ast.Assign) and len(s2.targets) == 1 and isinstance(s2.targets[0], ast.Name):
                    loc[s2.targets[0].id] = norm(s2.value)
        for nm_, v_ in loc.items():
            if nm_ in txt:
                txt += " " + v_
        return "sum" in txt and "species" in txt and ("> 0" in txt or "!= 0" in txt) and "dim=1" in txt
    ctx.check(len(na) >= 1 and all(_counts_real(st) for st in na), "R6", mm, na[0] if na else mm.tree, "Molecule", "num_atoms",
              "num_atoms = number of species > 0 per molecule", f"num_atoms = {[norm(st.value) for st in na]}")
    # (b) super-call forwarding: an override that calls super().<same method>(...) hands on every parameter it shares with the parent signature
    CONSUMED = {
        # (class.method, parameter) -> why the override does not forward it
    }
    k = 0
    for m in (md, nad):
        for cname, cls in m.classes.items():
            for st in cls.body:
                if not isinstance(st, ast.FunctionDef):
                    continue
                own = [a.arg for a in st.args.args if a.arg not in ("self", "cls")] + [a.arg for a in st.args.kwonlyargs]
                for c in calls_in(st):
                    if not (isinstance(c.func, ast.Attribute) and isinstance(c.func.value, ast.Call) and norm(c.func.value.func) == "super" and c.func.attr == st.name):
                        continue
                    # parent definition
                    parent = None
                    seen_self = False
                    for pm, pc in repo.mro(m, cls):
                        if pc is cls:
                            seen_self = True
                            continue
                        if seen_self:
                            hit = [x for x in pc.body if isinstance(x, ast.FunctionDef) and x.name == st.name]
                            if hit:
                                parent = hit[0]
                                break
                    if parent is None:
                        continue
                    pparams = [a.arg for a in parent.args.args if a.arg not in ("self", "cls")] + [a.arg for a in parent.args.kwonlyargs]
                    shared = [p_ for p_ in own if p_ in pparams]
                    passed_kw = {kw.arg for kw in c.keywords if kw.arg}
                    passed_pos = set()
                    for i, a in enumerate(c.args):
                        if isinstance(a, ast.Starred):
                            continue
                        if i < len([x for x in parent.args.args if x.arg not in ("self", "cls")]):
                            passed_pos.add([x.arg for x in parent.args.args if x.arg not in ("self", "cls")][i])
                    for p_ in shared:
                        k += 1
                        if (f"{cname}.{st.name}", p_) in CONSUMED:
                            continue
                        ctx.check(p_ in passed_kw or p_ in passed_pos, "R6", m, c, f"{cname}.{st.name}", f"super().{st.name}(... {p_} ...)",
                                  f"{cname}.{st.name} forwards `{p_}` to the parent implementation",
                                  f"{cname}.{st.name} accepts `{p_}` but its super().{st.name}(...) call does not pass it on: the parent runs with its default "
                                  f"(e.g. remove_com=None: no centre-of-mass removal and no reduction of the degrees of freedom for this engine)")
    if k < 10:
        raise AnalysisError(f"only {k} forwarded parameters inventoried")
