"""C16 -- CIS/RPA excited states are true eigenpairs (solver-protocol clauses decidable from the source)."""
from __future__ import annotations

import ast

from ..cfg import build_cfg
from ..guards import controlling
from ..loader import AnalysisError, call_name, callee_attr, calls_in, names_in, norm, short
from ..loops import while_bounded

LEVEL = "other"
EXPLANATION = (
    "The three Davidson drivers (rcis_batch, rcis_any_batch, rpa) are checked against one protocol. R1 termination: the iteration loop "
    "is bounded by a counter, the only normal exit is the `all(done)` break, exhaustion raises (CFG: under not-all-done no path leaves the "
    "loop except through the raise), and the eigenpair buffers that are returned are the frozen result buffers. R2 convergence flag: a "
    "molecule is marked done only (a) by the first-convergence mask (~done) & (every root has residual norm <= the caller's root_tol, "
    "unscaled, reduced over roots only) or (b) at the inventoried stagnation site (no new direction survives orthogonalisation); the "
    "residual is H V c - theta V c of the same subspace vectors. R3 freeze: every store into a result buffer (amplitudes, eigenvalues) "
    "selects rows through an index whose provenance excludes molecules already done (mask with a ~done conjunct, or a loop over "
    "nonzero(~done)); a converged molecule's eigenpairs are never rewritten by later iterations of its batch mates. R4 ordering: "
    "eigenvalues come from torch.linalg.eigh (ascending) and the reported block is the contiguous slice [pad, pad+nroots) above the "
    "zero-padded null space. R5 orbital/energy pairing: the MO reordering helper permutes orbital energies with the same occupied and "
    "virtual permutations as the coefficient columns, both results are bound at every call site, and the solvers receive that `e`. "
    "R6 starting guesses: AO-basis guesses are normalised and orthogonalised against the subspace before use, loss of a root raises. "
    "Numerical agreement with dense diagonalisation is not decided."
)
ASSUMPTIONS = [
    "torch.linalg.eigh returns ascending eigenvalues with orthonormal eigenvectors",
    "matrix_vector_product_batched applies the CIS/RPA operator defined by w, e_mo and the orbitals (its algebra is not decided here)",
]
TRUSTED = ["sa.cfg statement CFG", "guard extraction (sa.guards)"]

RCIS = "seqm/seqm_functions/rcis_batch.py"
RCISN = "seqm/seqm_functions/rcis_new.py"
RPA = "seqm/seqm_functions/rpa.py"
BASICS = "seqm/basics.py"

DRIVERS = [(RCIS, "rcis_batch", "get_subspace_eig_batched"), (RCISN, "rcis_any_batch", "get_subspace_eig_any_batched"), (RPA, "rpa", "rpa_subspace_eig")]
RESULT_BUFFERS = ("amplitude_store", "e_val_n")


def _defs(func):
    d = {}
    for st in ast.walk(func):
        if isinstance(st, ast.Assign) and len(st.targets) == 1 and isinstance(st.targets[0], ast.Name):
            d.setdefault(st.targets[0].id, []).append(st.value)
    return d


def _conjuncts(e):
    if isinstance(e, ast.BinOp) and isinstance(e.op, ast.BitAnd):
        return _conjuncts(e.left) + _conjuncts(e.right)
    return [e]


def _is_not_done(e):
    return isinstance(e, ast.UnaryOp) and isinstance(e.op, ast.Invert) and norm(e.operand) == "done"


def _mask_excludes_done(e, defs, depth=0):
    """True if boolean mask expression `e` implies ~done"""
    if depth > 5:
        return False
    for c in _conjuncts(e):
        if _is_not_done(c):
            return True
        if isinstance(c, ast.Name) and len(defs.get(c.id, [])) == 1 and _mask_excludes_done(defs[c.id][0], defs, depth + 1):
            return True
    return False


def _iter_source(e, defs, depth=0):
    """the boolean mask an index iterable enumerates: nonzero(M)... -> M"""
    if depth > 5:
        return None
    if isinstance(e, ast.Name) and len(defs.get(e.id, [])) == 1:
        return _iter_source(defs[e.id][0], defs, depth + 1)
    if isinstance(e, ast.Call):
        nm = call_name(e) or ""
        at = callee_attr(e)
        if nm == "enumerate" and e.args:
            return _iter_source(e.args[0], defs, depth + 1)
        if at in ("squeeze", "flatten", "tolist", "reshape", "view") and isinstance(e.func, ast.Attribute):
            return _iter_source(e.func.value, defs, depth + 1)
        if nm in ("torch.nonzero", "torch.where") and e.args:
            return e.args[0]
        if at == "nonzero" and isinstance(e.func, ast.Attribute):
            return e.func.value
    return None


def row_selector_excludes_done(mod, func, store_target, defs):
    """(ok, description) for the row index of a store into a result buffer"""
    sl = store_target.slice
    elts = list(sl.elts) if isinstance(sl, ast.Tuple) else [sl]
    sels = [e for e in elts if not isinstance(e, (ast.Constant, ast.Slice))]
    if not sels:
        return False, "the store addresses every molecule"
    sel = sels[0]
    # boolean mask
    if _mask_excludes_done(sel, defs):
        return True, f"mask {norm(sel)} has a ~done conjunct"
    if isinstance(sel, ast.Name):
        # loop variable over an index list derived from a ~done mask
        cur = store_target
        while cur is not None and cur is not func:
            cur = mod.parents.get(cur)
            if isinstance(cur, ast.For):
                tnames = {n.id for n in ast.walk(cur.target) if isinstance(n, ast.Name)}
                if sel.id in tnames:
                    src = _iter_source(cur.iter, defs)
                    if src is not None and _mask_excludes_done(src, defs):
                        return True, f"{sel.id} iterates over nonzero({norm(src)}) which excludes done molecules"
                    return False, f"{sel.id} iterates over {short(norm(cur.iter))} which is not restricted to molecules that are not done"
    return False, f"row selector `{norm(sel)}` does not exclude molecules that are already done"


def run(ctx):
    repo = ctx.repo
    ctx.rule("R1", "termination: bounded loop, the only normal exit is all(done), exhaustion raises, frozen buffers are returned")
    ctx.rule("R2", "done is set only by the first-convergence mask (residual <= root_tol for every root) or at the inventoried stagnation site")
    ctx.rule("R3", "freeze: result buffers are never rewritten for molecules that are already done")
    ctx.rule("R4", "reported eigenvalues: ascending eigh output, contiguous lowest block above the padding null space")
    ctx.rule("R5", "orbital energies are permuted together with the orbitals and both reach the solvers")
    ctx.rule("R6", "starting guesses are orthonormalised; a lost root raises")
    ctx.rule("R7", "subspace collapse reads the old subspace before overwriting it (Ritz vectors and their images are rebuilt from intact data)")
    ctx.rule("R8", "the number of start vectors of a molecule never exceeds its own number of occupied-virtual pairs")
    ctx.rule("R9", "the operator applied by the Davidson drivers is the singlet CIS Hamiltonian A (and the RPA coupling B): two-electron response of a non-symmetric transition density and the full matrix-vector product, chunked and unchunked (abstract interpretation, sa/npsym.py)")
    from ..assembly import check_cis_operator
    check_cis_operator(ctx, "R9")
    ctx.rule("R10", "the active space is the documented orbital window: the n highest occupied and the m lowest virtual orbitals, windows beyond the orbital space are rejected "
                    "(abstract interpretation of get_occ_virt and of the window arithmetic of calc_cis_energy)")
    from ..assembly import interpreted_orbital_window
    rc_ = repo.mod("seqm/seqm_functions/rcis_batch.py")
    okw, msgw, nw = interpreted_orbital_window(repo)
    ctx.check(okw, "R10", rc_, rc_.func("get_occ_virt"), "get_occ_virt", "orbital window",
              f"{nw} interpreted requests: active space, orbital-energy differences and rejections follow the documented (n below HOMO, m above LUMO) window", msgw)
    from ..assembly import check_cis_energy
    check_cis_energy(ctx, "R9")
    from ..assembly import check_phase_alignment
    check_phase_alignment(ctx, "R9")

    for rel, drv, helper in DRIVERS:
        mod = repo.mod(rel)
        if not mod.has_func(drv):
            raise AnalysisError(f"{rel}: driver {drv} not found")
        f = mod.func(drv)
        defs = _defs(f)
        g = build_cfg(f)
        loops = [n for n in g.nodes if n.kind == "while" and "davidson_iter" in norm(n.expr)]
        if len(loops) != 1:
            raise AnalysisError(f"{drv}: Davidson loop not found ({len(loops)})")
        L = loops[0]
        # ---- R1
        res = while_bounded(mod, f, L.stmt, g)
        ctx.check(res[0] if isinstance(res, tuple) else bool(res), "R1", mod, L.stmt, drv, "while davidson_iter <= max_iter",
                  "the Davidson loop is bounded by a strictly increasing counter", f"the Davidson loop is not provably bounded: {res[1] if isinstance(res, tuple) else res}")
        body = g.loop_body(L.id)
        breaks = [n for n in g.nodes if n.id in body and n.kind == "stmt" and isinstance(n.stmt, ast.Break)]
        good_break = []
        for b in breaks:
            # only breaks of the Davidson loop itself
            cur = mod.parents.get(b.stmt)
            inner = False
            while cur is not None and cur is not L.stmt:
                if isinstance(cur, (ast.For, ast.While)):
                    inner = True
                cur = mod.parents.get(cur)
            if inner:
                continue
            ctrl = [(norm(a).replace(" ", ""), pol) for a, pol, _ in controlling(mod, b.stmt, stop=L.stmt)]
            ok_ = any(t in ("torch.all(done)", "done.all()") and pol for t, pol in ctrl)
            good_break.append(ok_)
            ctx.check(ok_, "R1", mod, b.stmt, drv, "break", "the loop is left early only when every molecule is done",
                      f"a break leaves the Davidson loop under {ctrl}: eigenpairs of molecules that are not converged are returned")
        ctx.check(bool(good_break), "R1", mod, L.stmt, drv, "all(done) break", "an all(done) exit exists", "the Davidson loop has no all(done) exit")
        # exhaustion: inside the loop a raise controlled by davidson_iter > max_iter, reached on every iteration that does not break
        raises = [n for n in g.nodes if n.id in body and n.kind == "stmt" and isinstance(n.stmt, ast.Raise)]
        exh = []
        for r in raises:
            ctrl = [(norm(a).replace(" ", ""), pol) for a, pol, _ in controlling(mod, r.stmt, stop=L.stmt)]
            dead = any(isinstance(a, ast.Constant) and bool(a.value) != pol for a, pol, _ in controlling(mod, r.stmt, stop=L.stmt))
            if not dead and any(t in ("davidson_iter>max_iter", "davidson_iter>=max_iter", "max_iter<davidson_iter") and pol for t, pol in ctrl):
                exh.append(r)
        if not exh:
            ctx.fail("R1", mod, L.stmt, drv, "exhaustion raise", "running out of iterations does not raise: the loop test fails and unconverged eigenpairs are returned silently")
        else:
            test_ifs = {id(src) for a, pol, src in controlling(mod, exh[0].stmt, stop=L.stmt) if "max_iter" in norm(a)}
            tnodes = [n.id for n in g.nodes if n.kind == "if" and id(n.stmt) in test_ifs]
            # every back edge to the loop head passes the exhaustion test (so the loop test can never fail with unconverged molecules)
            incr = [n.id for n in g.nodes if n.id in body and n.kind == "stmt" and isinstance(n.stmt, (ast.Assign, ast.AugAssign)) and
                    norm(n.stmt.targets[0] if isinstance(n.stmt, ast.Assign) else n.stmt.target) == "davidson_iter"]
            ok_ = bool(tnodes) and bool(incr)
            if ok_:
                # from the increment, can we get back to the loop head avoiding the exhaustion test and the breaks?
                reach = g.reachable(incr, avoid=set(tnodes) | {b.id for b in breaks})
                ok_ = L.id not in reach
            ctx.check(ok_, "R1", mod, exh[0].stmt, drv, "exhaustion test on every iteration",
                      "after the counter is incremented every path back to the loop head passes `davidson_iter > max_iter -> raise`",
                      "an iteration can return to the loop head without passing the exhaustion test: the loop may end through its own test and return unconverged eigenpairs")
        # returned buffers
        rets = [n.stmt for n in g.nodes if n.kind == "stmt" and isinstance(n.stmt, ast.Return) and n.stmt.value is not None]
        for r in rets:
            vals = r.value.elts if isinstance(r.value, ast.Tuple) else [r.value]
            names = [norm(v) for v in vals]
            ctx.check(names[:2] == ["e_val_n", "amplitude_store"], "R1", mod, r, drv, "return", "returns the frozen buffers (e_val_n, amplitude_store)",
                      f"{drv} returns {names}: not the buffers frozen at convergence")
        # ---- R2 done stores (followed along the def-chain, independent of local names)
        tuple_defs = {}
        for st in ast.walk(f):
            if isinstance(st, ast.Assign) and isinstance(st.targets[0], ast.Tuple) and isinstance(st.value, ast.Call):
                for e in st.targets[0].elts:
                    if isinstance(e, ast.Name):
                        tuple_defs.setdefault(e.id, []).append(st.value)
        params = [a.arg for a in f.args.args]
        tol_param = "root_tol" if "root_tol" in params else None

        def reduce_over_roots(e):
            """X if e says 'no root of the molecule is flagged in X' with a reduction over the root axis only"""
            t = e
            neg = False
            if isinstance(t, ast.UnaryOp) and isinstance(t.op, ast.Invert):
                t, neg = t.operand, True
            def dim1(call):
                return [norm(a) for a in call.args] == ["1"] or any(kw.arg == "dim" and norm(kw.value) == "1" for kw in call.keywords)
            if neg and isinstance(t, ast.Call) and callee_attr(t) == "any" and isinstance(t.func, ast.Attribute) and dim1(t):
                return t.func.value
            if not neg and isinstance(t, ast.Compare) and isinstance(t.ops[0], ast.Eq) and norm(t.comparators[0]) == "0" and \
                    isinstance(t.left, ast.Call) and callee_attr(t.left) == "sum" and isinstance(t.left.func, ast.Attribute) and dim1(t.left):
                return t.left.func.value
            if not neg and isinstance(t, ast.Call) and callee_attr(t) == "all" and isinstance(t.func, ast.Attribute) and dim1(t):
                inner = t.func.value
                if isinstance(inner, ast.UnaryOp) and isinstance(inner.op, ast.Invert):
                    return inner.operand
            return None

        def one_def(e):
            if isinstance(e, ast.Name):
                return defs[e.id][0] if len(defs.get(e.id, [])) == 1 else None
            return e            # an expression written in place is its own definition

        n_first = n_stag = 0
        flagged_names = []
        for st in ast.walk(f):
            if not (isinstance(st, ast.Assign) and isinstance(st.targets[0], ast.Subscript) and norm(st.targets[0].value) == "done"):
                continue
            if not (isinstance(st.value, ast.Constant) and st.value.value is True):
                if isinstance(st.value, ast.Constant) and st.value.value is False:
                    continue
                ctx.fail("R2", mod, st, drv, st, f"done is assigned a computed value `{short(norm(st.value))}`")
                continue
            sel = st.targets[0].slice
            seldef = one_def(sel)
            if seldef is not None and not isinstance(mod.parents.get(st), ast.If):
                conj = _conjuncts(seldef)
                has_nd = any(_is_not_done(c) for c in conj)
                conv = [c for c in conj if not _is_not_done(c)]
                X = None
                if len(conv) == 1:
                    cdef = one_def(conv[0]) if isinstance(conv[0], ast.Name) else conv[0]
                    X = reduce_over_roots(cdef) if cdef is not None else None
                ctx.check(has_nd and X is not None, "R2", mod, st, drv, f"done[{norm(sel)}] = True",
                          f"first-convergence store: {norm(sel)} = (~done) & (no root flag of the molecule is set in `{norm(X) if X is not None else '?'}`; reduction over roots only)",
                          f"done[{norm(sel)}] = True with {norm(sel)} = {short(norm(seldef))}: the flag is not '(~done) & every root of this molecule passed the residual test'")
                if X is not None:
                    flagged_names.append(X)
                n_first += 1
            else:
                ctrl = [(a, pol) for a, pol, _ in controlling(mod, st, stop=L.stmt)]
                def is_stag(a):
                    # subspace did not grow: vend[i] - vstart[i] == 0 / vend[i] == vstart[i]
                    if not (isinstance(a, ast.Compare) and isinstance(a.ops[0], ast.Eq)):
                        return False
                    t = norm(a).replace(" ", "")
                    return "vend[" in t and "vstart[" in t and (t.endswith("==0") or "==vstart[" in t or "==vend[" in t)
                stag = any(is_stag(a) and pol for a, pol in ctrl)
                ctx.check(stag, "R2", mod, st, drv, f"done[{norm(sel)}] = True (stagnation)",
                          "inventoried stagnation exit: no correction vector survived orthogonalisation, the subspace cannot grow for this molecule",
                          f"done[{norm(sel)}] = True under {[(short(norm(a)), p_) for a, p_ in ctrl]}: a molecule is flagged converged by something other than the residual test or the stagnation exit")
                n_stag += 1
        ctx.check(n_first == 1, "R2", mod, f, drv, "first-convergence store", "exactly one first-convergence store", f"{n_first} first-convergence stores")
        # residual test behind the root flags
        for X in flagged_names:
            xdef = one_def(X)
            if xdef is None:
                ctx.fail("R2", mod, f, drv, f"{norm(X)}", f"the root flags `{norm(X)}` are not defined exactly once")
                continue
            conj = _conjuncts(xdef)
            cmpn = [c for c in conj if isinstance(c, ast.Compare)]
            extra = [c for c in conj if not isinstance(c, ast.Compare)]
            R = None
            ok_ = False
            if len(cmpn) == 1 and len(cmpn[0].ops) == 1:
                c = cmpn[0]
                if isinstance(c.ops[0], (ast.Gt, ast.GtE)) and norm(c.comparators[0]) == tol_param:
                    R, ok_ = c.left, True
                elif isinstance(c.ops[0], (ast.Lt, ast.LtE)) and norm(c.left) == tol_param:
                    R, ok_ = c.comparators[0], True
            ok_ = ok_ and tol_param is not None and tol_param not in defs
            # extra conjuncts may only restrict to requested roots (a boolean mask that is not derived from the residual)
            ok_extra = all(isinstance(c, ast.Name) and "mask" in c.id for c in extra)
            ctx.check(ok_ and ok_extra, "R2", mod, f, drv, f"{norm(X)} = {short(norm(xdef))}",
                      "a root counts as converged iff its residual norm is <= the caller's root_tol (parameter, not rescaled)",
                      f"{norm(X)} = {short(norm(xdef))}: the residual is not compared with the requested tolerance itself")
            if R is None:
                continue
            rdef = one_def(R)
            if rdef is not None:
                ok_ = isinstance(rdef, ast.Call) and (call_name(rdef) or "") in ("torch.linalg.vector_norm", "torch.norm", "torch.linalg.norm") and rdef.args and \
                    any(kw.arg == "dim" and norm(kw.value) in ("2", "-1") for kw in rdef.keywords)
                ctx.check(ok_, "R2", mod, f, drv, f"{norm(R)}", f"{norm(R)} is a vector norm over the amplitude axis", f"{norm(R)} = {short(norm(rdef))} is not a norm of the residual over the amplitude axis")
                if ok_:
                    res = rdef.args[0]
                    v = one_def(res)
                    good = False
                    if v is not None and isinstance(v, ast.BinOp) and isinstance(v.op, ast.Sub) and isinstance(v.right, ast.BinOp) and isinstance(v.right.op, ast.Mult):
                        lnames, rnames = set(names_in(v.left)), set(names_in(v.right))
                        # left: subspace eigenvectors contracted with H*V; right: (eigenvectors contracted with V) * eigenvalues -- they must share the eigenvector source
                        amp = [n for n in rnames if one_def(ast.Name(id=n, ctx=ast.Load())) is not None and "einsum" in norm(one_def(ast.Name(id=n, ctx=ast.Load())))]
                        shared = set()
                        for n in amp:
                            shared |= set(names_in(one_def(ast.Name(id=n, ctx=ast.Load())))) & lnames
                        good = "HV" in lnames and bool(shared) and "e_val_n" in rnames
                    ctx.check(good, "R2", mod, f, drv, f"{norm(res)}", "residual = (H V) c - theta (V c) with the same subspace eigenvectors c on both sides",
                              f"residual `{norm(res)}` = {short(norm(v)) if v is not None else '?'} is not H V c - theta V c")
            else:
                srcs = tuple_defs.get(norm(R), [])
                ok_ = len(srcs) == 1 and (call_name(srcs[0]) or "") == "calc_rpa_residue"
                ctx.check(ok_, "R2", mod, f, drv, f"{norm(R)}", f"{norm(R)} comes from calc_rpa_residue", f"{norm(R)} is not produced by the RPA residual routine")

        # ---- R3 freeze
        funcs_to_scan = [(f, defs, drv)]
        if helper:
            hf = mod.func(helper)
            funcs_to_scan.append((hf, _defs(hf), helper))
            # the helper must receive the driver's done flags
            hc = [c for c in calls_in(f) if (call_name(c) or "") == helper]
            ctx.check(bool(hc) and all("done" in [norm(a) for a in c.args] for c in hc), "R3", mod, hc[0] if hc else f, drv, f"{helper}(..., done)",
                      f"{helper} receives the done flags", f"{helper} is not given the done flags")
        n_st = 0
        for fn, fdefs, fname in funcs_to_scan:
            for st in ast.walk(fn):
                if isinstance(st, ast.Assign):
                    tg = st.targets
                elif isinstance(st, ast.AugAssign):
                    tg = [st.target]
                else:
                    continue
                for t in tg:
                    if isinstance(t, ast.Subscript) and isinstance(t.value, ast.Name) and t.value.id in RESULT_BUFFERS:
                        ok_, why = row_selector_excludes_done(mod, fn, t, fdefs)
                        n_st += 1
                        ctx.check(ok_, "R3", mod, st, fname, f"{norm(t)} = ...", f"{norm(t)}: {why}",
                                  f"{norm(t)} is written for molecules that may already be done ({why}): eigenpairs frozen at convergence are overwritten by a later "
                                  f"iteration driven by slower batch mates (their subspace vectors are zeroed once done)")
                    elif isinstance(t, ast.Name) and t.id in RESULT_BUFFERS and not _is_alloc(st.value if isinstance(st, ast.Assign) else None):
                        n_st += 1
                        ctx.fail("R3", mod, st, fname, st, f"result buffer {t.id} is rebound to {short(norm(st.value))} inside the solver")
        if n_st < 3:
            raise AnalysisError(f"{drv}: only {n_st} result-buffer stores found")

        # ---- R4 ordering (helper or inline)
        scan = [mod.func(helper)] if helper else [fn for q, fn in mod.functions.items() if any(isinstance(s, ast.Assign) and isinstance(s.targets[0], ast.Subscript) and
                                                                                            norm(s.targets[0].value) == "e_val_n" for s in ast.walk(fn)) and q != drv]
        for hf in scan:
            hd = _defs(hf)
            eigs = [c for c in calls_in(hf) if (call_name(c) or "") in ("torch.linalg.eigh",)]
            ctx.check(bool(eigs), "R4", mod, hf, hf.name, "eigh", "subspace problem solved by torch.linalg.eigh (ascending)", f"{hf.name} does not use eigh: eigenvalue order is not guaranteed")
            for st in ast.walk(hf):
                if isinstance(st, ast.Assign) and isinstance(st.targets[0], ast.Subscript) and norm(st.targets[0].value) == "e_val_n":
                    v = st.value
                    if isinstance(v, ast.Name) and len(hd.get(v.id, [])) >= 1:
                        # rpa: eval_current = sqrt(r_eval[j, start:end]) -- look through one definition
                        cands = [x for x in hd[v.id]]
                        v = cands[0]
                        while isinstance(v, ast.Call) and v.args:
                            v = v.args[0]
                    sls = [x for x in ast.walk(v) if isinstance(x, ast.Subscript) and "r_eval" in norm(x.value)]
                    ok_ = False
                    txt = norm(v)
                    for s_ in sls:
                        sl = s_.slice.elts[-1] if isinstance(s_.slice, ast.Tuple) else s_.slice
                        if isinstance(sl, ast.Slice) and sl.lower is not None and sl.upper is not None and sl.step is None:
                            lo, up = norm(sl.lower), norm(sl.upper).replace(" ", "")
                            lo_def = hd.get(lo, [None])[0]
                            lo_ok = lo_def is not None and "zero_pad" in norm(lo_def)
                            up_ok = up in (f"{lo}+nroots", f"nroots+{lo}", f"{lo}+k", f"k+{lo}") or (up in hd and norm(hd[up][0]).replace(" ", "") in (f"{lo}+nroots", f"nroots+{lo}"))
                            ok_ = lo_ok and up_ok
                    ctx.check(ok_, "R4", mod, st, hf.name, f"{norm(st.targets[0])} = {short(txt)}", "reported eigenvalues are the contiguous block [pad, pad + nroots) of the ascending spectrum",
                              f"reported eigenvalues are `{short(txt)}`: not the lowest nroots eigenvalues above the zero-padding null space")

    # ---------------------------------------------------------------- R5
    bas = repo.mod(BASICS)
    mm = bas.func("Energy._crossing_match_molecular_orbitals")
    md = _defs(mm)
    # occupied and virtual permutations applied to coefficient blocks and to the energies
    txt = {k: [norm(v).replace(" ", "") for v in vs] for k, vs in md.items()}
    co = [t for t in txt.get("Co_new", []) if "apply_perm(Co_new,po)" in t]
    cv = [t for t in txt.get("Cv_new", []) if "apply_perm(Cv_new,pv)" in t]
    eo = [t for t in txt.get("eo", []) if t.startswith("e_mo[:,:nocc].gather(1,po)")]
    ev = [t for t in txt.get("ev", []) if t.startswith("e_mo[:,nocc:].gather(1,pv)")]
    cat = [t for t in txt.get("e_mo", []) if t.startswith("torch.cat([eo,ev],dim=1)") or t.startswith("torch.cat((eo,ev),dim=1)")]
    ctx.check(bool(co and cv), "R5", bas, mm, "Energy._crossing_match_molecular_orbitals", "apply_perm", "occupied columns permuted by po, virtual columns by pv",
              f"coefficient permutation is {txt.get('Co_new')} / {txt.get('Cv_new')}")
    ctx.check(bool(eo and ev and cat), "R5", bas, mm, "Energy._crossing_match_molecular_orbitals", "e_mo gather", "orbital energies gathered with the same po / pv and concatenated [occ, virt]",
              f"orbital energies are permuted by {txt.get('eo')} / {txt.get('ev')} -> {txt.get('e_mo')}: e[k] no longer belongs to column k of the orbitals")
    rets = [r for r in ast.walk(mm) if isinstance(r, ast.Return) and r.value is not None and bas.qualname_of(r) == "Energy._crossing_match_molecular_orbitals"]
    ctx.check(bool(rets) and all(isinstance(r.value, ast.Tuple) and len(r.value.elts) == 2 and norm(r.value.elts[1]) == "e_mo" for r in rets), "R5", bas, mm,
              "Energy._crossing_match_molecular_orbitals", "return", "returns (orbitals, energies) on every path", "a return path drops or replaces the energies")
    ef = bas.func("Energy.forward")
    n_calls = 0
    for st in ast.walk(ef):
        if isinstance(st, ast.Assign) and isinstance(st.value, ast.Call) and (callee_attr(st.value) or "").startswith("_crossing_match_molecular_orbitals"):
            n_calls += 1
            t = st.targets[0]
            ok_ = isinstance(t, ast.Tuple) and len(t.elts) == 2 and norm(t.elts[0]) == "molecule.molecular_orbitals" and norm(t.elts[1]) == "e"
            ctx.check(ok_, "R5", bas, st, "Energy.forward", f"{short(norm(t))} = {callee_attr(st.value)}(...)",
                      "the reordered orbitals and their energies are bound together (molecule.molecular_orbitals, e)",
                      f"the call binds {norm(t)}: the permuted orbital energies are discarded while the permuted orbitals are kept, so e[k] and C[:, k] "
                      f"disagree whenever two orbitals swap order between geometries")
            # energies passed in are the SCF eigenvalues `e`
            args = [norm(a) for a in st.value.args]
            ctx.check(any(a in ("e", "e.clone()") for a in args), "R5", bas, st, "Energy.forward", f"{callee_attr(st.value)} args", "the helper receives the SCF eigenvalues e",
                      f"the helper receives {args}")
    ctx.check(n_calls >= 2, "R5", bas, ef, "Energy.forward", "MO matching call sites", f"{n_calls} MO matching call sites", "MO matching call sites not found")
    for c in calls_in(ef):
        nm = (call_name(c) or "").split(".")[-1]
        if nm in ("rcis_batch", "rpa", "rcis_any_batch") and bas.qualname_of(c) == "Energy.forward":
            ctx.check(len(c.args) >= 3 and norm(c.args[2]) == "e" and norm(c.args[1]) == "w" and norm(c.args[0]) == "molecule", "R5", bas, c, "Energy.forward", f"{nm}(molecule, w, e, ...)",
                      f"{nm} receives the integrals w and the (re-ordered) orbital energies e of this molecule object", f"{nm} is called with {[norm(a) for a in c.args[:3]]}")
    # `e` is not reassigned between the matching and the solver calls (other than by the matching itself)
    g = build_cfg(ef)
    e_writes = [n for n in g.nodes if n.kind == "stmt" and isinstance(n.stmt, ast.Assign) and any(
        (isinstance(t, ast.Name) and t.id == "e") or (isinstance(t, ast.Tuple) and any(isinstance(x, ast.Name) and x.id == "e" for x in t.elts)) for t in n.stmt.targets)]
    solver_nodes = [n.id for n in g.nodes if (n.kind == "stmt") and any((call_name(c) or "").split(".")[-1] in ("rcis_batch", "rpa", "rcis_any_batch") for c in calls_in(n.stmt))]
    for wnode in e_writes:
        src_ok = isinstance(wnode.stmt.value, ast.Call) and ((callee_attr(wnode.stmt.value) or "").startswith("_crossing_match") or callee_attr(wnode.stmt.value) in ("hamiltonian",)) \
            or norm(wnode.stmt.value) in ("e.detach()",) or "self.hamiltonian" in norm(wnode.stmt.value)
        reaches_solver = any(s in g.reachable(wnode.id) for s in solver_nodes)
        ctx.check(src_ok or not reaches_solver, "R5", bas, wnode.stmt, "Energy.forward", f"e = {short(norm(wnode.stmt.value))}",
                  "orbital energies reaching the solvers come from the SCF or from the MO matching",
                  f"`e` is rebound to {short(norm(wnode.stmt.value))} before the excited-state solver runs")

    # ---------------------------------------------------------------- R6
    rc = repo.mod(RCIS)
    f = rc.func("rcis_batch")
    # AO-basis guess: normalise first vector, orthogonalise the rest, raise when a root is lost
    ao_if = [st for st in ast.walk(f) if isinstance(st, ast.If) and "init_amplitude_guess.shape[-1]" in norm(st.test)]
    if not ao_if:
        ctx.fail("R6", rc, f, "rcis_batch", "AO-basis guess branch", "AO-basis guess branch not found")
    else:
        blk = ao_if[0]
        # the AO arm is the one that transforms the guess with the MO coefficients (either arm of the test, depending on how the test is written)
        arm = blk.body
        if not any("einsum" in norm(s) and "init_amplitude_guess" in norm(s) for s in blk.body) and any("einsum" in norm(s) and "init_amplitude_guess" in norm(s) for s in blk.orelse):
            arm = blk.orelse
        body_txt = [norm(s).replace(" ", "") for s in arm]
        has_norm = any(t.startswith("V[:,0]/=torch.linalg.vector_norm(V[:,0]") for t in body_txt)
        has_orth = any("orthogonalize_to_current_subspace" in t for t in body_txt)
        has_raise = any(isinstance(x, ast.Raise) for s in arm for x in ast.walk(s))
        ctx.check(has_norm and has_orth and has_raise, "R6", rc, blk, "rcis_batch", "AO-basis guess orthonormalisation",
                  "AO-basis guesses are normalised, Gram-Schmidt orthogonalised and a lost root raises",
                  f"AO-basis starting vectors enter the subspace without orthonormalisation (normalise={has_norm}, orthogonalise={has_orth}, raise on loss={has_raise}): "
                  f"V^T H V is then not the projected operator and Ritz values are wrong")
    og = rc.func("orthogonalize_to_current_subspace")
    proj = [st for st in ast.walk(og) if isinstance(st, ast.AugAssign) and isinstance(st.op, ast.Sub) and norm(st.target) == "vec"]
    ok_ = len(proj) >= 1 and all(norm(p.value).replace(" ", "") == "vec@V[:vend].T@V[:vend]" for p in proj)
    ctx.check(ok_, "R6", rc, og, "orthogonalize_to_current_subspace", "projection", f"new vectors are projected against V[:vend] ({len(proj)} passes)",
              f"projection statements are {[norm(p) for p in proj]}")
    st_norm = [st for st in ast.walk(og) if isinstance(st, ast.Assign) and norm(st.targets[0]) == "V[vend]"]
    ctx.check(len(st_norm) == 1 and norm(st_norm[0].value).replace(" ", "") == "vec/vecnorm", "R6", rc, og, "orthogonalize_to_current_subspace", "normalisation",
              "accepted vectors are normalised", f"accepted vectors are stored as {[norm(s.value) for s in st_norm]}")
    # ---------------------------------------------------------------- R7 collapse block: read-before-overwrite
    n7 = 0
    for rel, drv, helper in DRIVERS:
        mod = repo.mod(rel)
        f = mod.func(drv)
        blocks = [st for st in ast.walk(f) if isinstance(st, ast.If) and "collapse_mask" in norm(st.test)]
        if not blocks:
            raise AnalysisError(f"{drv}: collapse block not found")
        for blk in blocks:
            written = {}
            def scan(stmts):
                nonlocal n7
                for st in stmts:
                    if isinstance(st, (ast.For, ast.If, ast.With)):
                        scan(st.body)
                        if getattr(st, "orelse", None):
                            scan(st.orelse)
                        continue
                    if not isinstance(st, (ast.Assign, ast.AugAssign)):
                        continue
                    tg = st.targets if isinstance(st, ast.Assign) else [st.target]
                    # reads on the right-hand side
                    for x in ast.walk(st.value):
                        if isinstance(x, ast.Subscript) and isinstance(x.value, ast.Name) and isinstance(x.ctx, ast.Load) and x.value.id in written:
                            prior = written[x.value.id]
                            # a prior store that only zeroes rows *beyond* the kept block is harmless only if it comes after; any prior store is a hazard
                            n7 += 1
                            ctx.fail("R7", mod, st, drv, f"{short(norm(st), 70)}",
                                     f"`{short(norm(st), 90)}` rebuilds the collapsed subspace from `{norm(x)}`, but `{x.value.id}` was already overwritten in this collapse by "
                                     f"`{short(norm(prior), 60)}`: the Ritz vectors / their images are computed from wiped data (only reached when the subspace limit forces a restart)")
                    for t in tg:
                        if isinstance(t, ast.Subscript) and isinstance(t.value, ast.Name):
                            # a store whose own right-hand side reads the same buffer is the rebuild itself
                            written.setdefault(t.value.id, st)
            scan(blk.body)
            n7 += 1
            ctx.ok("R7", f"{short(rel)}:{drv}", f"collapse block: every buffer ({sorted(written)}) is read before its first overwrite")
    # ---------------------------------------------------------------- R8 start-vector bound
    def upper_bounds(e, defs, depth=0, selfname=None, selfprev=None):
        """normalised expressions known to bound `e` from above (min / minimum / clamp(max=) chains, sequential redefinitions)"""
        out = {norm(e).replace(" ", "")}
        if depth > 8:
            return out
        if isinstance(e, ast.Name):
            if e.id == selfname and selfprev is not None:
                return out | selfprev
            if defs.get(e.id):
                cur = None
                for v in defs[e.id]:           # definitions in source order; a redefinition may refer to the previous value
                    cur = upper_bounds(v, defs, depth + 1, e.id, cur)
                return out | (cur or set())
            return out
        if isinstance(e, ast.Call):
            nm = (call_name(e) or "").split(".")[-1]
            if nm in ("min", "minimum") and len(e.args) >= 2:
                for a in e.args:
                    out |= upper_bounds(a, defs, depth + 1, selfname, selfprev)
                return out
            if nm == "clamp":
                base = e.func.value if isinstance(e.func, ast.Attribute) and not (call_name(e) or "").startswith(("torch.", "th.")) else (e.args[0] if e.args else None)
                if base is not None:
                    out |= upper_bounds(base, defs, depth + 1, selfname, selfprev)
                for kw in e.keywords:
                    if kw.arg == "max":
                        out |= upper_bounds(kw.value, defs, depth + 1, selfname, selfprev)
                return out
        if isinstance(e, ast.IfExp):
            bb = upper_bounds(e.body, defs, depth + 1, selfname, selfprev)
            bo = upper_bounds(e.orelse, defs, depth + 1, selfname, selfprev)
            # X if A + X < M else max(0, M - A): when the test fails M - A <= X, so the result never exceeds X
            t = e.test
            if isinstance(t, ast.Compare) and isinstance(t.ops[0], ast.Lt) and isinstance(t.left, ast.BinOp) and isinstance(t.left.op, ast.Add) and norm(t.left.right) == norm(e.body) \
                    and isinstance(e.orelse, ast.Call) and (call_name(e.orelse) or "") == "max" and len(e.orelse.args) == 2 and norm(e.orelse.args[0]) == "0" \
                    and norm(e.orelse.args[1]).replace(" ", "") == f"{norm(t.comparators[0])}-{norm(t.left.left)}".replace(" ", ""):
                out |= bb
            else:
                out |= bb & bo
        return out
    import re as _re
    for rel, gname in ((RCIS, "make_guess"), (RCISN, "make_guess_any_batch")):
        mod = repo.mod(rel)
        gf = mod.func(gname)
        gd = {}
        for st in ast.walk(gf):
            if isinstance(st, ast.Assign) and len(st.targets) == 1 and isinstance(st.targets[0], ast.Name):
                gd.setdefault(st.targets[0].id, []).append(st.value)
        # nstart = nroots + extra: find the name(s) added to the root count
        nst = [nm for nm, vs in gd.items() if nm.startswith("nstart") and vs]
        if not nst:
            raise AnalysisError(f"{gname}: start-vector count not found")
        v = gd[nst[0]][0]
        while isinstance(v, ast.Call) and (call_name(v) or "").split(".")[-1] in ("minimum", "min") and v.args:
            v = v.args[0]
        extra = None
        if isinstance(v, ast.BinOp) and isinstance(v.op, ast.Add):
            for side in (v.left, v.right):
                if isinstance(side, ast.Name) and not side.id.startswith("nroots"):
                    extra = side
        if extra is None:
            ctx.fail("R8", mod, gf, gname, nst[0], f"{nst[0]} = {short(norm(gd[nst[0]][0]), 60)} is not `roots + extra`")
            continue
        ub = upper_bounds(extra, gd)
        ok_ = any(_re.fullmatch(r"\(?nov\w*-nroots\w*\)?", u) or _re.fullmatch(r"torch\.clamp\(nov\w*-nroots\w*,min=0\)", u) for u in ub)
        ctx.check(ok_, "R8", mod, gf, gname, f"{extra.id} <= nov - nroots",
                  f"{gname}: the extra start vectors `{extra.id}` are bounded by the molecule's own remaining pairs (nov - nroots)",
                  f"{gname}: the extra start vectors `{extra.id}` have upper bounds {sorted(ub)[:4]} but none is the molecule's own `nov - nroots`: a small molecule (in a mixed batch next "
                  f"to a larger one) gets unit start vectors on padded, non-existent occupied-virtual pairs and returns spurious zero eigenvalues")
    ctx.floor("R1", 12)
    ctx.floor("R2", 12)
    ctx.floor("R3", 12)
    ctx.floor("R4", 4)
    ctx.floor("R5", 8)
    ctx.note("Stagnation exits (done without residual test when no correction vector survives orthogonalisation) exist in all three drivers and are inventoried, not judged: "
             "they can in principle return a root whose residual exceeds root_tol.")


def _is_alloc(v):
    return isinstance(v, ast.Call) and (call_name(v) or "").split(".")[-1] in ("empty", "zeros", "zeros_like", "empty_like", "full")
