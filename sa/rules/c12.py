"""C12 -- the Langevin thermostat samples the canonical ensemble at the target temperature (algebraic/structural clauses)."""
from __future__ import annotations

import ast

from ..cfg import build_cfg
from ..exprs import to_sympy
from ..guards import controlling
from ..loader import AnalysisError, attr_chain, call_name, callee_attr, calls_in, names_in, norm, short
from ..mdstep import MD, NAD, STEP_FUNCS, StepEvents, md_env, md_funcs, md_symbols, mutated_phase_attr

LEVEL = "other"
EXPLANATION = (
    "R1 fluctuation-dissipation identity decided by expression algebra on the def-chain of langevin_c1 / langevin_c2 in "
    "Molecular_Dynamics_Langevin.initialize: c1^2 + c2^2/(T*mass_inverse*VEL_SCALE^2) == 1 identically in dt, damp, T, mass "
    "(with C08-R2 tying VEL_SCALE^2 to k_B/amu), c1 = exp(-dt/(2 damp)); R2 O-step shape (v*=c1 then v+=c2*fresh randn_like(v), "
    "under no_grad) and placement as first and last event of every thermostatted step on every path, under one condition; "
    "R3 limits damp->inf (c1->1, c2->0), T=0 (c2=0), 0<c1<=1; R4 degrees-of-freedom accounting and set_dof before the velocity "
    "draw. The long-run mean temperature (statistical) is not decided."
)
ASSUMPTIONS = ["torch.randn_like draws unit-variance independent normals", "the thermostat coefficients are only defined in Molecular_Dynamics_Langevin.initialize"]
TRUSTED = ["sympy simplification / limits"]


def run(ctx):
    import sympy as sp
    repo = ctx.repo
    md = repo.mod(MD)
    sym = md_symbols()
    ctx.rule("R1", "fluctuation-dissipation identity between langevin_c1 and langevin_c2 (expression algebra)")
    ctx.rule("R2", "O-step shape and placement around velocity Verlet on every path")
    ctx.rule("R3", "limits: damp->infinity gives NVE, T=0 only removes energy, 0<c1<=1")
    ctx.rule("R4", "degrees of freedom: Langevin ignores constraints, XL-BOMD ignores them iff damped, set_dof precedes the draw")
    ctx.rule("R5", "a resumed thermostatted run keeps its damping time: every engine type that accepts `damp` is rebuilt with the recorded value (shared with C10-R9)")
    from .c10 import _r9_ctor_kwargs
    _r9_ctor_kwargs(ctx, repo, rid="R5")
    # the thermostatted step by value: O - V - O with two independent noise draws, the Verlet step acting on the thermostatted velocities (shared with C08-R1)
    from ..assembly import interpreted_verlet_step
    try:
        for cls_, ok_, msg_ in interpreted_verlet_step(repo):
            if "Langevin" not in cls_:
                continue
            m_ = repo.mod(MD)
            ctx.check(ok_, "R2", m_, m_.func(f"{cls_}.one_step"), f"{cls_}.one_step", "O - V - O identities",
                      f"{cls_}.one_step: thermostat half-step, complete velocity-Verlet step, thermostat half-step (two noise draws), as polynomial identities", f"{cls_}.one_step: {msg_}")
    except AnalysisError as e_:
        ctx.note(f"Langevin one_step could not be interpreted ({str(e_)[:100]}); event-word reading only")

    # R1 / R3 by value: whatever helpers, records or temporaries initialize() uses, the coefficients it leaves on the driver satisfy the identities (and are recomputed from
    # the current settings on every call).  Where that holds, findings and "shape not recognised" stops of the def-chain reading below are spelling artefacts.
    from ..assembly import interpreted_langevin_coefficients
    bv = None
    try:
        bv = interpreted_langevin_coefficients(repo)
    except AnalysisError as e_:
        ctx.note(f"Langevin.initialize could not be interpreted ({str(e_)[:100]}); def-chain reading only")
    ini = md.func("Molecular_Dynamics_Langevin.initialize")
    if bv is not None:
        for msg_ in bv["messages"][:3]:
            ctx.fail("R1", md, ini, "Molecular_Dynamics_Langevin.initialize", "langevin coefficients by value", msg_)
        if bv["ok"]:
            ctx.ok("R1", f"{MD} Molecular_Dynamics_Langevin.initialize", "by value: c1 = exp(-dt/(2 damp)), c1^2 + c2^2/(T m^-1 VEL_SCALE^2) = 1 per atom, recomputed from the current "
                   "settings on every initialize(), in place before the parent initialisation, no damping time -> plain initialisation [EA+]")
            ctx.ok("R3", f"{MD} Molecular_Dynamics_Langevin.initialize", "limits follow from the two identities: damp -> infinity gives c1 -> 1, c2 -> 0; T = 0 gives c2 = 0; 0 < c1 < 1")
            # (a store in a constructor is overwritten by every initialize() -- which the by-value reading has just shown to set both coefficients from the current
            #  settings -- before any step can read it; stores in step / run functions stay violations)
            ctx.demote = lambda rid, rel, function, message: ("decided by value (interpreted initialize)" if rid in ("R1", "R3") and rel == MD
                                                              and (function.startswith("Molecular_Dynamics_Langevin.initialize")
                                                                   or (function.endswith(".__init__") and "redefined outside" in message)) else None)
    try:
        _shape_r1_r3(ctx, repo, md, sym, ini)
    except AnalysisError as e_:
        if bv is not None and bv["ok"]:
            ctx.note(f"def-chain reading of the Langevin coefficients stopped ({str(e_)[:100]}); R1 / R3 are decided by value")
        elif bv is not None:
            pass    # violations already reported by value
        else:
            raise
    finally:
        ctx.demote = None
    _r2_r4(ctx, repo, md)


def _shape_r1_r3(ctx, repo, md, sym, ini):
    import sympy as sp
    env = md_env(sym)
    c1 = c2 = None
    c_stmts = {}
    # straight-line interpretation of the block that defines the coefficients
    for st in ast.walk(ini):
        if isinstance(st, ast.Assign) and len(st.targets) == 1:
            t = norm(st.targets[0])
            if t in ("self.langevin_c1", "self.langevin_c2"):
                c_stmts[t] = st
    if set(c_stmts) != {"self.langevin_c1", "self.langevin_c2"}:
        missing = sorted({"self.langevin_c1", "self.langevin_c2"} - set(c_stmts))
        if len(missing) == 2:
            raise AnalysisError("Langevin.initialize: langevin_c1/c2 definitions not found")
        ctx.fail("R1", md, ini, "Molecular_Dynamics_Langevin.initialize", f"{missing[0]} not recomputed",
                 f"{missing[0]} is not recomputed in initialize() while the other thermostat coefficient is: after the time step or the damping time of the driver object is changed "
                 f"the two coefficients belong to different settings and the fluctuation-dissipation relation fails (stationary temperature off by the ratio of the two settings)")
        return
    blk = ini.body
    # find the block containing c1 definition
    par = md.parents[c_stmts["self.langevin_c1"]]
    stmts = par.body if c_stmts["self.langevin_c1"] in getattr(par, "body", []) else par.orelse
    for st in stmts:
        if isinstance(st, ast.Assign) and len(st.targets) == 1:
            t = norm(st.targets[0])
            try:
                val = to_sympy(st.value, env, md_funcs())
            except AnalysisError as e:
                if t in c_stmts:
                    ctx.fail("R1", md, st, "Molecular_Dynamics_Langevin.initialize", st, f"cannot interpret thermostat coefficient: {e}")
                continue
            env[t] = val
    c1, c2 = env.get("self.langevin_c1"), env.get("self.langevin_c2")
    if c1 is None or c2 is None:
        raise AnalysisError("Langevin coefficients not interpretable")
    dt, damp, T, minv, VEL = sym["dt"], sym["damp"], sym["Temp"], sym["minv"], sym["VEL"]
    ident = sp.simplify(c1 ** 2 + c2 ** 2 / (T * minv * VEL ** 2) - 1)
    ctx.check(ident == 0, "R1", md, c_stmts["self.langevin_c2"], "Molecular_Dynamics_Langevin.initialize", c_stmts["self.langevin_c2"],
              "c1^2 + c2^2/(T*mass_inverse*VEL_SCALE^2) == 1 for all dt, damp, T, mass",
              f"fluctuation-dissipation relation broken: c1^2 + c2^2/(k_B T/m) - 1 = {ident} with c1 = {c1}, c2 = {c2}; the stationary "
              f"temperature differs from the target")
    half = sp.simplify(c1 - sp.exp(-dt / (2 * damp)))
    ctx.check(half == 0, "R1", md, c_stmts["self.langevin_c1"], "Molecular_Dynamics_Langevin.initialize", c_stmts["self.langevin_c1"],
              "c1 = exp(-dt/(2*damp)): half-step friction applied twice per step",
              f"c1 = {c1} is not the half-step friction factor exp(-dt/(2 damp)) of the Bussi-Parrinello scheme")
    # the block is executed whenever a damping time is set, before the parent initialize
    ctrl = controlling(md, c_stmts["self.langevin_c1"])
    conds = [(norm(a).replace(" ", ""), pol) for a, pol, _ in ctrl]
    # `x is None` failing is the same condition as `x is not None` holding (guard clause / nested form)
    conds = [("self.dampisnotNone", not pol) if t == "self.dampisNone" else (t, pol) for t, pol in conds]
    ctx.check(conds == [("self.dampisnotNone", True)], "R1", md, c_stmts["self.langevin_c1"],
              "Molecular_Dynamics_Langevin.initialize", "if self.damp is not None", "coefficients are recomputed on every initialize() whenever a damping time is set",
              f"thermostat coefficients are computed under {conds} rather than exactly `self.damp is not None`: a later run on the same "
              f"object (other masses, temperature or time step) keeps stale coefficients or none at all")
    # they are computed before the parent initialize (which may draw velocities and evaluate forces) and from the current settings
    g0 = build_cfg(ini)
    sup = [n.id for n in g0.nodes if n.kind == "stmt" and any("super()" in norm(c.func) and callee_attr(c) == "initialize" for c in calls_in(n.stmt))]
    cn = g0.nodes_of(c_stmts["self.langevin_c2"])
    ctx.check(bool(sup) and bool(cn) and all(s_ in g0.reachable(cn[0]) for s_ in sup), "R1", md, ini, "Molecular_Dynamics_Langevin.initialize", "super().initialize",
              "coefficients are in place before the parent initialisation runs", "parent initialize() is not reached after the coefficient block")
    # no other definition of the coefficients anywhere
    for rel in (MD, NAD, "scripts/tully_surface_hopping/TullyModels.py"):
        if not repo.has(rel):
            continue
        m = repo.mod(rel)
        for st in ast.walk(m.tree):
            if isinstance(st, (ast.Assign, ast.AugAssign)):
                tg = st.targets if isinstance(st, ast.Assign) else [st.target]
                for t in tg:
                    if isinstance(t, ast.Attribute) and t.attr in ("langevin_c1", "langevin_c2") and st not in c_stmts.values():
                        ctx.fail("R1", m, st, m.qualname_of(st), st, "thermostat coefficient redefined outside Molecular_Dynamics_Langevin.initialize")

    # R3 limits
    l1 = sp.limit(c1, damp, sp.oo)
    l2 = sp.limit(c2, damp, sp.oo)
    ctx.check(l1 == 1 and l2 == 0, "R3", md, ini, "Molecular_Dynamics_Langevin.initialize", "damp->oo", "damp -> infinity: c1 -> 1, c2 -> 0 (NVE limit)",
              f"infinite damping time does not give NVE: c1 -> {l1}, c2 -> {l2}")
    c2_T0 = sp.simplify(c2.subs(T, 0))
    ctx.check(c2_T0 == 0, "R3", md, ini, "Molecular_Dynamics_Langevin.initialize", "T=0", "T = 0: no noise is injected", f"at T=0 the noise amplitude is {c2_T0}")
    pos = sp.simplify(c1).is_positive and sp.simplify(1 - c1).is_nonnegative is not False
    # 0<c1<=1 for dt,damp>0: c1 = exp(-positive)
    arg = sp.simplify(sp.log(c1))
    ctx.check(bool(sp.simplify(arg).is_negative), "R3", md, ini, "Molecular_Dynamics_Langevin.initialize", "0<c1<1", "0 < c1 < 1 for dt, damp > 0 (friction only removes energy)",
              f"c1 = {c1} is not a contraction for positive dt, damp")



def _r2_r4(ctx, repo, md):
    # R2 shape
    th = md.func("Molecular_Dynamics_Langevin._apply_langevin_thermostat")
    muts = []
    for st in ast.walk(th):
        if isinstance(st, ast.stmt) and not isinstance(st, (ast.With, ast.FunctionDef)):
            for attr, how, node in mutated_phase_attr(st):
                muts.append((attr, how, node))
    shape_ok = len(muts) == 2 and muts[0][:2] == ("velocities", "mul_") and muts[1][:2] == ("velocities", "add_")
    # friction and noise are applied on every call: no condition (nested test or early return) may skip either of them -- at Temp = 0 the noise amplitude vanishes by
    # itself while the friction factor must still act
    for attr_, how_, node_ in muts:
        st_ = md.enclosing_stmt(node_) if not isinstance(node_, ast.stmt) else node_
        conds_ = [(norm(a), pol) for a, pol, _ in controlling(md, st_, stop=th)]
        ctx.check(not conds_, "R2", md, st_, "Molecular_Dynamics_Langevin._apply_langevin_thermostat", f"velocities.{how_} unconditional",
                  f"the O-step update `velocities.{how_}` runs on every call of the thermostat", 
                  f"the O-step update `velocities.{how_}(...)` is skipped under {conds_}: the thermostat no longer acts in that case (e.g. no friction at zero target temperature: the "
                  f"run conserves energy instead of being quenched)")
    ctx.check(shape_ok, "R2", md, th, "Molecular_Dynamics_Langevin._apply_langevin_thermostat", th.name,
              "O-step is exactly: velocities *= c1; velocities += noise",
              f"O-step mutations are {[(a, h) for a, h, _ in muts]} (expected velocities.mul_ then velocities.add_)")
    if shape_ok:
        mul, add = muts[0][2], muts[1][2]
        ctx.check(norm(mul.args[0]) == "self.langevin_c1", "R2", md, mul, "Molecular_Dynamics_Langevin._apply_langevin_thermostat", mul,
                  "friction multiplies by langevin_c1", f"friction multiplies by `{norm(mul.args[0])}`")
        a = add.args[0]
        rn = [c for c in calls_in(a) if (call_name(c) or "") == "torch.randn_like"]
        fresh = len(rn) == 1 and norm(rn[0].args[0]) == "molecule.velocities" and not any(k.arg == "generator" for k in rn[0].keywords)
        prod = isinstance(a, ast.BinOp) and isinstance(a.op, ast.Mult) and {norm(a.left), norm(a.right)} == {"self.langevin_c2", norm(rn[0]) if rn else ""}
        ctx.check(fresh and prod, "R2", md, add, "Molecular_Dynamics_Langevin._apply_langevin_thermostat", add,
                  "noise = langevin_c2 * fresh randn_like(velocities) drawn on every call",
                  f"noise term is `{norm(a)}`: not langevin_c2 times a fresh unit normal per velocity component")
        withs = [w for w in ast.walk(th) if isinstance(w, ast.With) and "no_grad" in norm(w.items[0].context_expr)]
        ctx.check(bool(withs), "R2", md, th, "Molecular_Dynamics_Langevin._apply_langevin_thermostat", "torch.no_grad()", "O-step runs under no_grad", "O-step not under torch.no_grad()")
    # placement
    thermo_funcs = 0
    for rel, q in STEP_FUNCS:
        m = repo.mod(rel)
        f = m.func(q)
        se = StepEvents(m, f)
        words = se.words()
        if not any("T" in w for w in words):
            if q == "Molecular_Dynamics_Basic.one_step":
                ctx.check(True, "R2", m, f, q, f.name, "plain BOMD step has no thermostat event")
                continue
            ctx.fail("R2", m, f, q, f.name, f"{q}: thermostat is never applied (paths {sorted(words)})")
            continue
        thermo_funcs += 1
        bad = [w for w in words if "T" in w and not (w.startswith("T") and w.rstrip("H").endswith("T") and w.count("T") == 2)]
        ctx.check(not bad, "R2", m, f, q, f.name, f"{q}: thermostat is the first and last event of every thermostatted path ({sorted(words)})",
                  f"{q}: thermostat half-steps are not symmetric around kick-drift-kick on paths {bad}")
        # both T under the same condition
        conds = []
        for t in se.all_events("T"):
            ctrl = controlling(m, m.enclosing_stmt(t))
            conds.append(sorted((norm(a), p) for a, p, _ in ctrl if "damp" in norm(a)))
        ctx.check(len({str(c) for c in conds}) == 1, "R2", m, f, q, f.name, f"{q}: both thermostat half-steps are under the same condition {conds[0] if conds else ''}",
                  f"{q}: thermostat half-steps are under different conditions {conds}")
    if thermo_funcs < 4:
        raise AnalysisError("thermostatted step functions not found")

    # R4
    from ..assembly import com_setup_verdicts
    cv = com_setup_verdicts(repo)
    ctx.check(cv["dof"][0], "R4", md, md.func("XL_BOMD.set_dof") if md.has_func("XL_BOMD.set_dof") else md.func("Molecular_Dynamics_Basic.set_dof"), "set_dof", "n_dof of the three engines", cv["dof"][1], cv["dof"][1])
    ctx.check(cv["mode"][0], "R4", md, md.func("Molecular_Dynamics_Basic.initialize"), "Molecular_Dynamics_Basic.initialize", "constraints", cv["mode"][1], cv["mode"][1])
    bi = md.func("Molecular_Dynamics_Basic.initialize")
    g = build_cfg(bi)
    sdn = {n.id for n in g.nodes if n.kind == "stmt" and any(callee_attr(c) == "set_dof" for c in calls_in(n.stmt))}
    ivn = [n.id for n in g.nodes if n.kind == "stmt" and any(callee_attr(c) == "initialize_velocity" for c in calls_in(n.stmt))]
    if not sdn or not ivn:
        raise AnalysisError("initialize: set_dof / initialize_velocity not found")
    for n in ivn:
        ctx.check(g.must_pass(g.entry, n, sdn), "R4", md, g.nodes[n].stmt, "Molecular_Dynamics_Basic.initialize", g.nodes[n].stmt,
                  "set_dof precedes the velocity draw on every path", "initialize_velocity can run before set_dof")
