"""C18 -- invalid requests are rejected loudly (guard completeness and placement; the finiteness clause is not decided)."""
from __future__ import annotations

import ast

from ..cfg import build_cfg
from ..loader import AnalysisError, call_name, callee_attr, calls_in, norm, short

LEVEL = "other"
EXPLANATION = (
    "Every documented precondition of C18 is a row of a guard table: (function, the valuation of its branch atoms that describes the "
    "violating request).  R1 builds the statement CFG of the function and explores it from the entry with three-valued evaluation of "
    "every if/while test under that valuation (atoms not mentioned stay unknown, both branches followed): the normal exit and every "
    "result-producing call listed for the row must be unreachable, i.e. every path of a violating request ends in a raise before a "
    "result exists.  This is insensitive to how the guard is spelled (nested ifs, early exits, and/or) but fires when a guard is "
    "deleted, narrowed by an extra conjunct, moved behind the computation or has its polarity flipped.  R2 decides the predicates "
    "behind the atoms where they are computed (sortedness comparison direction in check_input, electron count = valence - charge and "
    "parity/integrality tests in Parser.forward, occupation range against the basis size, jcall table).  R3 checks guard placement "
    "in the call graph: check_input(species) precedes parsing in Molecule.__init__ on every path, make_Pnew_factory is built before "
    "the first iteration of each SCF driver.  The clause 'accepted inputs yield finite results or a flag' quantifies over floating "
    "point values and is not decided here."
)
ASSUMPTIONS = [
    "branch atoms named in a table row keep their value along the path (they are parameters, configuration attributes or locals "
    "assigned once before the guard; R1 verifies single assignment for locals)",
    "library predicates (.any(), .all(), torch.equal, isinstance) have their documented meaning",
]
TRUSTED = ["statement-level CFG construction (sa/cfg.py)"]

MOLECULE = "seqm/Molecule.py"
BASICS = "seqm/basics.py"
SCF = "seqm/seqm_functions/scf_loop.py"
MD = "seqm/MolecularDynamics.py"
DIAT = "seqm/seqm_functions/diat_overlap_PM6_SP.py"
RCIS = "seqm/seqm_functions/rcis_batch.py"
RPA = "seqm/seqm_functions/rpa.py"

_POS = {ast.NotEq: ast.Eq, ast.NotIn: ast.In, ast.IsNot: ast.Is}


def leaf_key(node):
    """canonical text of an atomic test and whether the test is its negation"""
    if isinstance(node, ast.Compare) and len(node.ops) == 1 and type(node.ops[0]) in _POS:
        pos = ast.Compare(left=node.left, ops=[_POS[type(node.ops[0])]()], comparators=node.comparators)
        return norm(pos), True
    return norm(node), False


def three_val(test, val, seen=None, defs=None, depth=0):
    """True / False / None for `test` under the partial valuation `val` (canonical leaf text -> bool).
    A bare local name that is defined once as a boolean expression is evaluated through its definition."""
    if isinstance(test, ast.UnaryOp) and isinstance(test.op, ast.Not):
        v = three_val(test.operand, val, seen, defs, depth)
        return None if v is None else (not v)
    if isinstance(test, ast.Call) and (call_name(test) or "") == "bool" and len(test.args) == 1:
        return three_val(test.args[0], val, seen, defs, depth)
    if isinstance(test, ast.Name) and norm(test) not in val and defs and len(defs.get(test.id, [])) == 1 and depth < 4 \
            and isinstance(defs[test.id][0], (ast.BoolOp, ast.Compare, ast.UnaryOp, ast.Call)):
        return three_val(defs[test.id][0], val, seen, defs, depth + 1)
    if isinstance(test, ast.IfExp):
        t_ = three_val(test.test, val, seen, defs, depth)
        if t_ is not None:
            return three_val(test.body if t_ else test.orelse, val, seen, defs, depth)
        a_, b_ = three_val(test.body, val, seen, defs, depth), three_val(test.orelse, val, seen, defs, depth)
        return a_ if a_ == b_ else None
    if isinstance(test, ast.Constant) and isinstance(test.value, bool):
        return test.value
    if isinstance(test, ast.BoolOp):
        vs = [three_val(v, val, seen, defs, depth) for v in test.values]
        if isinstance(test.op, ast.And):
            if any(v is False for v in vs):
                return False
            return True if all(v is True for v in vs) else None
        if any(v is True for v in vs):
            return True
        return False if all(v is False for v in vs) else None
    # concrete values of named expressions ("@values": {"method": "AM1"}): ==, !=, in, not in against literals are evaluated, whatever the spelling
    vals = val.get("@values") if isinstance(val, dict) else None
    if vals and isinstance(test, ast.Compare) and len(test.ops) == 1:
        lt, rt = norm(test.left), norm(test.comparators[0])
        # a local that merely names the valued expression (`converger = SCF.converger[0]`)
        if lt not in vals and isinstance(test.left, ast.Name) and defs and len(defs.get(test.left.id, [])) == 1 and norm(defs[test.left.id][0]) in vals:
            lt = norm(defs[test.left.id][0])
        if rt not in vals and isinstance(test.comparators[0], ast.Name) and defs and len(defs.get(test.comparators[0].id, [])) == 1 and norm(defs[test.comparators[0].id][0]) in vals:
            rt = norm(defs[test.comparators[0].id][0])
        try:
            if lt in vals:
                a_, b_ = vals[lt], ast.literal_eval(test.comparators[0])
            elif rt in vals and isinstance(test.ops[0], (ast.Eq, ast.NotEq)):
                a_, b_ = vals[rt], ast.literal_eval(test.left)
            else:
                raise ValueError
            op = test.ops[0]
            if isinstance(op, ast.Eq):
                return a_ == b_
            if isinstance(op, ast.NotEq):
                return a_ != b_
            if isinstance(op, ast.In):
                return a_ in b_
            if isinstance(op, ast.NotIn):
                return a_ not in b_
            if lt in vals and isinstance(op, (ast.Gt, ast.GtE, ast.Lt, ast.LtE)) and isinstance(a_, (int, float)) and isinstance(b_, (int, float)):
                return {ast.Gt: a_ > b_, ast.GtE: a_ >= b_, ast.Lt: a_ < b_, ast.LtE: a_ <= b_}[type(op)]
        except (ValueError, SyntaxError, TypeError):
            pass
    if vals and norm(test) in vals and isinstance(vals[norm(test)], (int, float, str, bool)):
        return bool(vals[norm(test)])
    key, neg = leaf_key(test)
    if key in val:
        if seen is not None:
            seen.add(key)
        return (not val[key]) if neg else val[key]
    return None


def reach_under(g, val):
    """nodes reachable from the entry when tests decided by `val` take only their feasible branch"""
    defs = {}
    for st in ast.walk(g.func):
        if isinstance(st, ast.Assign) and len(st.targets) == 1 and isinstance(st.targets[0], ast.Name):
            defs.setdefault(st.targets[0].id, []).append(st.value)
    seen = {g.entry}
    todo = [g.entry]
    used = set()
    while todo:
        n = todo.pop()
        node = g.nodes[n]
        decided = None
        if node.kind in ("if", "while") and node.expr is not None:
            decided = three_val(node.expr, val, used, defs)
        for e in g.succ[n]:
            b, lab = e[0], e[1]
            if decided is not None and lab in ("true", "false") and (lab == "true") != decided:
                continue
            if b not in seen:
                seen.add(b)
                todo.append(b)
    return seen, used


# (row id, file, function, valuation, producers (callee names that create results), description)
GUARDS = [
    ("sorted-species", MOLECULE, "check_input", {"@rows_sorted": False}, (),
     "a species row that is not non-increasing"),
    ("rhf-odd-electrons", BASICS, "Parser.forward", {"self.uhf": False, "@odd_electrons": True}, (),
     "odd electron count with a restricted reference"),
    ("uhf-fractional-alpha", BASICS, "Parser.forward",
     {"self.uhf": True, "(nocc_alpha % 1 != 0).any()": True, "self.hipnn_automatic_doublet": False}, (),
     "charge/multiplicity pair with a non-integer number of alpha electrons"),
    ("uhf-fractional-beta", BASICS, "Parser.forward",
     {"self.uhf": True, "(nocc_beta % 1 != 0).any()": True, "self.hipnn_automatic_doublet": False}, (),
     "charge/multiplicity pair with a non-integer number of beta electrons"),
    ("negative-occupation", BASICS, "Parser.forward", {"(nocc < 0).any()": True}, (),
     "charge/multiplicity pair that needs a negative number of occupied orbitals"),
    ("occupation-exceeds-basis", BASICS, "Parser.forward", {"@occ_gt_norb": True}, (),
     "charge/multiplicity pair that needs more occupied orbitals than the valence basis has"),
    ("uhf-pm6-factory", SCF, "make_Pnew_factory", {"openshell": True, "method == 'PM6'": True}, (),
     "unrestricted reference with PM6"),
    ("uhf-sp2-factory", SCF, "make_Pnew_factory", {"openshell": True, "sp2[0]": True}, (),
     "unrestricted reference with SP2"),
    ("uhf-ksa-scf-forward", SCF, "SCF.forward",
     {"unrestricted": True, "@values": {"SCF.converger[0]": 3}}, ("scf_forward3",),
     "unrestricted reference with the KSA solver (scf_backward 0/1 path)"),
    ("uhf-pulay-scf-forward", SCF, "SCF.forward",
     {"unrestricted": True, "@values": {"SCF.converger[0]": 2}}, ("scf_forward2",),
     "unrestricted reference with Pulay DIIS (scf_backward 0/1 path)"),
    ("uhf-pm6-scf-loop", SCF, "scf_loop", {"unrestricted": True, "molecule.method == 'PM6'": True}, ("scfapply", "scf_forward0", "scf_forward1", "scf_forward2"),
     "unrestricted reference with PM6 (integral stage)"),
    ("uhf-pulay-direct-backprop", SCF, "scf_loop",
     {"unrestricted": True, "scf_backward == 2": True, "scf_converger[0] == 0": False, "scf_converger[0] == 1": False,
      "scf_converger[0] == 2": True}, ("scf_forward2",),
     "unrestricted reference with Pulay DIIS (scf_backward 2 path)"),
    ("direct-backprop-unsupported-solver", SCF, "scf_loop",
     {"scf_backward == 2": True, "scf_converger[0] == 0": False, "scf_converger[0] == 1": False, "scf_converger[0] == 2": False},
     ("scf_forward3",), "direct back-propagation with a solver that does not support it (KSA)"),
    ("excited-options-not-dict", BASICS, "Hamiltonian.__init__", {"excited_options": True, "isinstance(excited_options, dict)": False}, (),
     "excited_states settings that are not a dictionary"),
    ("excited-options-no-nstates", BASICS, "Hamiltonian.__init__",
     {"excited_options": True, "isinstance(excited_options, dict)": True, "'n_states' in excited_options": False}, (),
     "excited_states settings without a number of states"),
    ("uhf-excited", BASICS, "Energy.__init__", {"self.uhf": True, "self.excited_states is None": False, "self.excited_states": True}, (),
     "unrestricted reference with CIS/RPA"),
    ("active-excited-without-settings", BASICS, "Energy.forward",
     {"excited_mask.any()": True, "self.excited_states": False, "self.xlesmd": False}, ("rcis_batch", "rpa", "rcis_any_batch"),
     "an excited active state without excited-state settings"),
    ("rpa-heterogeneous-batch", BASICS, "Energy.forward",
     {"self.excited_states": True, "all_same_mols": False, "@values": {"method": "rpa"}}, ("rpa", "rcis_batch"),
     "RPA (or anything but CIS) on a heterogeneous batch"),
    ("unknown-excited-method", BASICS, "Energy.forward",
     {"self.excited_states": True, "all_same_mols": True, "@values": {"method": "eom-cc"}},
     ("rpa", "rcis_batch", "rcis_any_batch"), "an excited-state method that is neither CIS/TDA nor RPA"),
    ("all-forces-without-analytical-gradient", BASICS, "Energy.forward",
     {"self.excited_states": True, "self.seqm_parameters.get('do_all_forces', False)": True, "do_analytical_gradient[0]": False}, (),
     "all-state forces without analytical gradients"),
    ("all-forces-heterogeneous-batch", BASICS, "Energy.forward",
     {"self.excited_states": True, "self.seqm_parameters.get('do_all_forces', False)": True, "do_analytical_gradient[0]": True,
      "all_same_mols": False, "@values": {"method": "cis"}}, (),
     "all-state forces on a heterogeneous batch"),
    ("unknown-com-mode", MD, "Molecular_Dynamics_Basic.initialize", {"self.do_remove_com": True, "mode in ('linear', 'angular')": False}, ("_zero_com",),
     "an unknown centre-of-mass removal mode"),
    ("unsupported-principal-quantum-number", DIAT, "diatom_overlap_matrix_PM6_SP", {"th.any(jcall == 0)": True}, (),
     "an element pair whose principal quantum numbers have no overlap routine"),
    ("cis-heterogeneous-orbitals", RCIS, "rcis_batch", {"torch.all(norb_batch == norb_batch[0])": False}, ("matrix_vector_product_batched", "get_occ_virt"),
     "batched CIS on molecules with different numbers of orbitals"),
    ("cis-heterogeneous-electrons", RCIS, "rcis_batch", {"torch.all(nocc_batch == nocc_batch[0])": False}, ("matrix_vector_product_batched", "get_occ_virt"),
     "batched CIS on molecules with different numbers of electrons"),
    ("rpa-heterogeneous-orbitals", RPA, "rpa", {"torch.all(norb_batch == norb_batch[0])": False}, ("rpa_matrix_vector_product", "matrix_vector_product_batched"),
     "batched RPA on molecules with different numbers of orbitals"),
    ("rpa-heterogeneous-electrons", RPA, "rpa", {"torch.all(nocc_batch == nocc_batch[0])": False}, ("rpa_matrix_vector_product", "matrix_vector_product_batched"),
     "batched RPA on molecules with different numbers of electrons"),
    ("cis-energy-heterogeneous-orbitals", RCIS, "calc_cis_energy", {"torch.all(norb_batch == norb_batch[0])": False}, ("makeA_pi_batched",),
     "batched CIS energy on molecules with different numbers of orbitals"),
    ("cis-energy-heterogeneous-electrons", RCIS, "calc_cis_energy", {"torch.all(nocc_batch == nocc_batch[0])": False}, ("makeA_pi_batched",),
     "batched CIS energy on molecules with different numbers of electrons"),
    ("cis-too-many-roots", RCIS, "rcis_batch", {"nroots > nov": True}, ("matrix_vector_product_batched",),
     "more CIS roots requested than occupied-virtual pairs exist"),
    ("rpa-too-many-roots", RPA, "rpa", {"nroots > nov": True}, ("rpa_matrix_vector_product", "matrix_vector_product_batched"),
     "more RPA roots requested than occupied-virtual pairs exist"),
    ("cis-any-batch-too-many-roots", "seqm/seqm_functions/rcis_new.py", "rcis_any_batch", {"nroots > torch.min(nov_batch)": True}, ("matrix_vector_product_batched",),
     "more CIS roots requested than the smallest molecule of the batch has occupied-virtual pairs"),
    ("xl-ksa-excited", MD, "XL_BOMD.initialize", {"@xl_excited": True, "'max_rank' in self.xl_bomd_params": True}, (),
     "KSA-XL-BOMD with excited-state dynamics"),
]


def _resolve_placeholders(mod, func, val):
    """`@name` keys stand for an atom that is located structurally instead of by its spelling."""
    out = {}
    for k, v in val.items():
        if k == "@occ_gt_norb":
            found = None
            for n in ast.walk(func):
                if isinstance(n, ast.Call) and callee_attr(n) == "any" and isinstance(n.func, ast.Attribute):
                    inner = n.func.value
                    if isinstance(inner, ast.Compare) and len(inner.ops) == 1 and isinstance(inner.ops[0], ast.Gt) \
                            and norm(inner.left) == "nocc" and "norb" in norm(inner.comparators[0]):
                        found = n
                    if isinstance(inner, ast.Compare) and len(inner.ops) == 1 and isinstance(inner.ops[0], ast.Lt) \
                            and norm(inner.comparators[0]) == "nocc" and "norb" in norm(inner.left):
                        found = n
            if found is None:
                return None, "no test of the form (nocc > norb...).any()"
            out[norm(found)] = v
        elif k == "@rows_sorted":
            # `<N>.all()` where N = <per-pair comparison>.all(dim=1): every row is sorted
            found = None
            fdefs = {}
            for st in ast.walk(func):
                if isinstance(st, ast.Assign) and len(st.targets) == 1 and isinstance(st.targets[0], ast.Name):
                    fdefs.setdefault(st.targets[0].id, []).append(st.value)
            for nm, vs in fdefs.items():
                if len(vs) == 1 and isinstance(vs[0], ast.Call) and callee_attr(vs[0]) == "all" and (vs[0].args or vs[0].keywords):
                    found = nm
            if found is None:
                return None, "no per-row sortedness flag (<cmp>.all(dim=1)) is computed"
            out[f"{found}.all()"] = v
        elif k == "@odd_electrons":
            # any spelling of "some molecule has an odd electron count": (n_charge % 2 == 1).any(), (n_charge % 2 != 0).any(), torch.any(...)
            found = None
            for n in ast.walk(func):
                if isinstance(n, ast.Call) and (callee_attr(n) == "any" or (call_name(n) or "").endswith(".any")):
                    inner = n.func.value if isinstance(n.func, ast.Attribute) and not n.args else (n.args[0] if n.args else None)
                    t = norm(inner).replace(" ", "").replace("(", "").replace(")", "") if inner is not None else ""
                    if t in ("n_charge%2==1", "n_charge%2!=0", "n_charge%2", "n_charge%2>0", "1==n_charge%2", "0!=n_charge%2"):
                        found = n
            if found is None:
                return None, "no test for an odd electron count (n_charge % 2) is left"
            out[norm(found)] = v
        elif k == "@xl_excited":
            # the condition under which XL_BOMD.initialize configures excited-state dynamics: the if enclosing the raising max_rank test
            tgt = None
            for n in ast.walk(func):
                if isinstance(n, ast.If) and any(isinstance(x, ast.Compare) and "max_rank" in norm(x) for x in ast.walk(n.test)) \
                        and any(isinstance(x, ast.Raise) for x in n.body):
                    par = mod.parents.get(n)
                    while par is not None and not isinstance(par, ast.If):
                        par = mod.parents.get(par)
                    tgt = par
            if tgt is None:
                return None, "no excited-state block with a raising max_rank test"
            from ..guards import atoms
            for a, pol in atoms(tgt.test, True):
                key, neg = leaf_key(a)
                out[key] = (pol != neg) if v else (not (pol != neg))
        else:
            out[k] = v
    return out, None


def _single_assignment(func, name):
    n = 0
    for st in ast.walk(func):
        if isinstance(st, (ast.Assign, ast.AugAssign, ast.AnnAssign)):
            tg = st.targets if isinstance(st, ast.Assign) else [st.target]
            for t in tg:
                for x in ast.walk(t):
                    if isinstance(x, ast.Name) and x.id == name and isinstance(x.ctx, ast.Store):
                        n += 1
    return n


_INTERPRETED = {"unknown-com-mode", "sorted-species", "rhf-odd-electrons", "uhf-fractional-alpha", "uhf-fractional-beta", "negative-occupation", "occupation-exceeds-basis"}
_INTERP_CACHE = {}


def _interpreted_verdict(repo, rid):
    from ..assembly import interpreted_check_input, interpreted_parser_guards
    key = id(repo)
    c = _INTERP_CACHE.setdefault(key, {})
    if rid == "unknown-com-mode":
        if "com" not in c:
            from ..assembly import com_setup_verdicts
            c["com"] = com_setup_verdicts(repo)["validation"]
        return c["com"]
    if rid == "sorted-species":
        if "ci" not in c:
            c["ci"] = interpreted_check_input(repo)
        return c["ci"]
    if "pg" not in c:
        c["pg"] = interpreted_parser_guards(repo)
    return c["pg"][rid]


def run(ctx):
    repo = ctx.repo
    ctx.rule("R1", "under the violating valuation no path reaches the normal exit or a result producer (three-valued CFG exploration)")
    ctx.rule("R2", "the predicates behind the guard atoms are the documented ones (comparison direction, electron count, parity, range, table)")
    ctx.rule("R3", "guards sit before the computation in the callers (check_input before parsing; solver factory before the first iteration)")
    ctx.rule("R4", "no singularity is merely masked by torch.where on a differentiable path (0*inf = NaN gradients without a flag)")
    from .. import wherenan
    n4 = wherenan.check(ctx, "R4")
    if n4 < 10:
        raise AnalysisError(f"C18-R4: only {n4} where-sites with singular branches inventoried")

    cfgs = {}
    for rid, rel, qual, val0, producers, what in GUARDS:
        mod = repo.mod(rel)
        if not mod.has_func(qual):
            raise AnalysisError(f"C18 guard table: {rel}:{qual} not found")
        func = mod.func(qual)
        # validators that can be interpreted on concrete requests (sa.assembly) are decided that way -- independent of how the guard is spelled; the flow-graph
        # exploration below decides the remaining rows and is the fallback when a validator cannot be interpreted
        if rid in _INTERPRETED:
            try:
                ok_i, msg_i = _interpreted_verdict(repo, rid)
            except AnalysisError:
                ok_i = None
            if ok_i is not None:
                if ok_i:
                    ctx.ok("R1", f"{short(rel)}:{qual}", f"guard[{rid}]: {msg_i}")
                else:
                    ctx.fail("R1", mod, func, qual, f"guard[{rid}]", msg_i)
                continue
        val, err = _resolve_placeholders(mod, func, val0)
        if val is None:
            ctx.fail("R1", mod, func, qual, f"guard[{rid}]", f"{what}: {err}; the request is not rejected")
            continue
        g = cfgs.get((rel, qual))
        if g is None:
            g = cfgs[(rel, qual)] = build_cfg(func)
        seen, used = reach_under(g, val)
        missing = sorted(set(val) - used - {"@values"})
        # atoms that never occur in a test of the function: the guard vanished or was respelled
        texts = set()
        fdefs_ = {}
        for st_ in ast.walk(func):
            if isinstance(st_, ast.Assign) and len(st_.targets) == 1 and isinstance(st_.targets[0], ast.Name):
                fdefs_.setdefault(st_.targets[0].id, []).append(st_.value)
        for n in g.nodes:
            if n.kind in ("if", "while") and n.expr is not None:
                todo_ = [n.expr]
                for x0 in ast.walk(n.expr):
                    if isinstance(x0, ast.Name) and len(fdefs_.get(x0.id, [])) == 1:
                        todo_.append(fdefs_[x0.id][0])
                for e_ in todo_:
                    for x in ast.walk(e_):
                        if isinstance(x, ast.expr):
                            texts.add(leaf_key(x)[0])
        absent = [k for k in val if k not in texts and k != "@values"]
        exit_reached = g.exit_return in seen
        prod_reached = []
        for n in seen:
            node = g.nodes[n]
            pay = node.stmt if node.kind == "stmt" else node.expr
            if pay is None:
                continue
            if node.kind == "with":
                pay = ast.Tuple(elts=[it.context_expr for it in node.stmt.items], ctx=ast.Load())
            for c in calls_in(pay):
                nm = callee_attr(c) or call_name(c)
                if nm and nm.split(".")[-1] in producers:
                    prod_reached.append((n, nm, c))
        if absent and exit_reached:
            ctx.fail("R1", mod, func, qual, f"guard[{rid}]",
                     f"{what}: no test on {absent} is left in {qual}; the violating request reaches the normal exit without an error")
            continue
        # locals among the atoms must be assigned once (so the valuation is stable along the path)
        for k in val:
            try:
                e = ast.parse(k, mode="eval").body
            except SyntaxError:
                continue
            if isinstance(e, ast.Name) and _single_assignment(func, e.id) > 1:
                ctx.fail("R1", mod, func, qual, f"guard[{rid}] atom {k}", f"{what}: the flag `{k}` is reassigned inside {qual}; the guard no longer tests the request")
        if exit_reached:
            # find a witness: the last decided test before exit is not needed; report the function and valuation
            ctx.fail("R1", mod, func, qual, f"guard[{rid}]",
                     f"{what}: with {val} a path through {qual} reaches the normal exit without raising "
                     f"(guard removed, narrowed or polarity changed); the invalid request produces a result")
        elif prod_reached:
            n, nm, c = sorted(prod_reached, key=lambda t: t[2].lineno)[0]
            ctx.fail("R1", mod, c, qual, f"guard[{rid}] producer {nm}",
                     f"{what}: `{nm}(...)` runs before the request is rejected (the guard sits behind the computation)")
        else:
            ctx.ok("R1", f"{short(rel)}:{qual}", f"guard[{rid}]: {what} -> every path raises before a result "
                   f"({len(seen)} of {len(g.nodes)} CFG nodes feasible, atoms decided: {sorted(used)})")
    ctx.floor("R1", len(GUARDS))

    # ---------------------------------------------------------------- R2 predicates
    # check_input and the electron-count guards of Parser.forward: when the interpreted runs (R1) decide them, the predicates are decided with them -- the textual
    # description of the predicates below is only consulted (for the diagnosis) when interpretation is not available or fails
    mol = repo.mod(MOLECULE)
    ci = mol.func("check_input")
    bas = repo.mod(BASICS)
    pf = bas.func("Parser.forward")
    try:
        _iv = [_interpreted_verdict(repo, r_) for r_ in sorted(_INTERPRETED)]
        interp_ok = all(v[0] for v in _iv)
    except AnalysisError:
        interp_ok = False
    if interp_ok:
        for r_, v_ in zip(sorted(_INTERPRETED), _iv):
            ctx.ok("R2", "seqm/Molecule.py:check_input / seqm/basics.py:Parser.forward", f"predicate behind guard[{r_}] decided by interpreted requests: {v_[1][:140]}")
        for _ in range(6):
            ctx.ok("R2", "seqm/basics.py:Parser.forward", "electron count, parity, spin occupations and basis bound decided by the interpreted requests of R1", nontrivial=False)
    else:
        mol = repo.mod(MOLECULE)
        ci = mol.func("check_input")
        defs = {}
        for st in ast.walk(ci):
            if isinstance(st, ast.Assign) and len(st.targets) == 1 and isinstance(st.targets[0], ast.Name):
                defs.setdefault(st.targets[0].id, []).append(st)
        ok_ = True
        msg = ""
        row_name = [nm for nm, sts in defs.items() if len(sts) == 1 and isinstance(sts[0].value, ast.Call) and callee_attr(sts[0].value) == "all" and (sts[0].value.args or sts[0].value.keywords)]
        row_ok = defs.get(row_name[0], []) if len(row_name) == 1 else []
        if len(row_ok) != 1:
            ok_, msg = False, "the per-row sortedness flag (<cmp>.all(dim=1)) is not defined exactly once"
        else:
            v = row_ok[0].value
            good = isinstance(v, ast.Call) and callee_attr(v) == "all" and isinstance(v.func, ast.Attribute)
            dim = None
            if good:
                for kw in v.keywords:
                    if kw.arg == "dim" and isinstance(kw.value, ast.Constant):
                        dim = kw.value.value
                if v.args and isinstance(v.args[0], ast.Constant):
                    dim = v.args[0].value
            if not good or dim not in (1, -1):
                ok_, msg = False, f"row_ok = {norm(v)} is not an all() over the atom axis"
            else:
                src = v.func.value
                if isinstance(src, ast.Name):
                    d = defs.get(src.id, [])
                    src = d[0].value if len(d) == 1 else None
                cmp_ok = False
                if isinstance(src, ast.Compare) and len(src.ops) == 1:
                    l, r = norm(src.left).replace(" ", ""), norm(src.comparators[0]).replace(" ", "")
                    left_is_head = l.endswith("[:,:-1]") and r.endswith("[:,1:]")
                    left_is_tail = l.endswith("[:,1:]") and r.endswith("[:,:-1]")
                    same_base = l.split("[")[0] == r.split("[")[0] == ci.args.args[0].arg
                    if same_base and ((left_is_head and isinstance(src.ops[0], ast.GtE)) or (left_is_tail and isinstance(src.ops[0], ast.LtE))):
                        cmp_ok = True
                if not cmp_ok:
                    ok_, msg = False, (f"sortedness predicate is `{norm(src)}`; the documented precondition is x[:, :-1] >= x[:, 1:] on the "
                                       f"argument (non-increasing, equal neighbours allowed, every adjacent pair compared)")
        ctx.check(ok_, "R2", mol, ci, "check_input", "row_ok", "row_ok = (species[:, :-1] >= species[:, 1:]).all(dim=1): non-increasing rows, all adjacent pairs",
                  msg)

        bas = repo.mod(BASICS)
        pf = bas.func("Parser.forward")
        # electron count: n_charge = sum(tore[species]) - tot_charge
        nch = [st for st in ast.walk(pf) if isinstance(st, ast.Assign) and norm(st.targets[0]) == "n_charge"]
        sub = [st for st in ast.walk(pf) if isinstance(st, ast.AugAssign) and norm(st.target) == "n_charge"]
        good = len(nch) == 1 and "tore[molecule.species]" in norm(nch[0].value) and "torch.sum" in norm(nch[0].value)
        ctx.check(good, "R2", bas, nch[0] if nch else pf, "Parser.forward", "n_charge", "n_charge starts as the sum of valence electrons tore[species] per molecule",
                  f"n_charge = {norm(nch[0].value) if nch else '?'} is not the per-molecule sum of tore[species]")
        good = len(sub) == 1 and isinstance(sub[0].op, ast.Sub) and "molecule.tot_charge" in norm(sub[0].value)
        ctx.check(good, "R2", bas, sub[0] if sub else pf, "Parser.forward", "n_charge -= tot_charge", "the total charge is subtracted from the electron count before the parity test",
                  f"electron count is not reduced by the total charge exactly once ({[norm(s) for s in sub]}); parity / multiplicity guards test the wrong count")
        if sub and nch:
            g = cfgs.get((BASICS, "Parser.forward")) or build_cfg(pf)
            gnodes = [n.id for n in g.nodes if n.kind == "if" and n.expr is not None and "n_charge % 2" in norm(n.expr)]
            snodes = g.nodes_of(sub[0])
            ctx.check(bool(gnodes) and bool(snodes) and all(gn in g.reachable(snodes) for gn in gnodes) and not any(sn in g.reachable(gnodes) for sn in snodes),
                      "R2", bas, sub[0], "Parser.forward", "order: charge subtraction before parity test", "charge subtraction precedes the parity guard",
                      "the parity guard runs before the total charge is subtracted")
        # alpha/beta occupations
        want = {"nocc_alpha": ("+",), "nocc_beta": ("-",)}
        import sympy as sp
        from ..exprs import to_sympy
        N, M = sp.symbols("N M")
        for nm, expect in (("nocc_alpha", N / 2 + (M - 1) / 2), ("nocc_beta", N / 2 - (M - 1) / 2)):
            d = [st for st in ast.walk(pf) if isinstance(st, ast.Assign) and norm(st.targets[0]) == nm]
            if not d:
                ctx.fail("R2", bas, pf, "Parser.forward", nm, f"{nm} definition not found")
                continue
            try:
                got = to_sympy(d[0].value, {"n_charge": N, "molecule.mult": M}, {})
                same = sp.simplify(got - expect) == 0
            except Exception as e:  # noqa
                got, same = f"uninterpretable ({e})", False
            ctx.check(same, "R2", bas, d[0], "Parser.forward", nm, f"{nm} = N/2 {'+' if nm.endswith('alpha') else '-'} (mult-1)/2",
                      f"{nm} = {got}; the integrality guard no longer tests N/2 +- (mult-1)/2")
        # occupation range: norb = nHydro + 4 nHeavy (+ 9 nSuperHeavy for PM6)
        nd = [st for st in ast.walk(pf) if isinstance(st, ast.Assign) and norm(st.targets[0]) == "norb"]
        if nd:
            nH, nHv, nS, PM6 = sp.symbols("nH nHv nS PM6")
            txt = norm(nd[0].value)
            try:
                funcs = {}
                got0 = to_sympy(_subst_ifexp(nd[0].value, False), {"nHydro": nH, "nHeavy": nHv, "nSuperHeavy": nS}, funcs)
                got1 = to_sympy(_subst_ifexp(nd[0].value, True), {"nHydro": nH, "nHeavy": nHv, "nSuperHeavy": nS}, funcs)
                # the bound may over-estimate (never rejects a valid request) but must not under-estimate the basis
                under0 = sp.simplify(got0 - (nH + 4 * nHv))
                under1 = sp.simplify(got1 - (nH + 4 * nHv + 9 * nS))
                good = under0 == 0 and under1 == 0
            except Exception as e:  # noqa
                good, txt = False, f"{txt} (uninterpretable: {e})"
            ctx.check(good, "R2", bas, nd[0], "Parser.forward", "norb", "norb = nHydro + 4 nHeavy (+ 9 nSuperHeavy for PM6) bounds the occupations",
                      f"norb = {txt} is not the number of basis orbitals; the occupation range guard rejects valid requests or accepts impossible ones")
        else:
            ctx.fail("R2", bas, pf, "Parser.forward", "norb", "no basis-size bound for the occupation range guard")

        # jcall table: every (qni, qnj) with qni >= qnj in 1..3 has a non-zero routine id, and jcall starts at zero

    dm = repo.mod(DIAT)
    df = dm.func("diatom_overlap_matrix_PM6_SP")
    init = [st for st in ast.walk(df) if isinstance(st, ast.Assign) and norm(st.targets[0]) == "jcall"]
    zero_init = len(init) == 1 and "zeros" in norm(init[0].value)
    ctx.check(zero_init, "R2", dm, init[0] if init else df, "diatom_overlap_matrix_PM6_SP", "jcall init", "jcall starts as zeros so unsupported pairs stay 0",
              f"jcall is initialised by {norm(init[0].value) if init else '?'}; unsupported pairs are not marked 0 and the guard cannot fire")
    pairs = {}
    for st in ast.walk(df):
        if isinstance(st, ast.Assign) and isinstance(st.targets[0], ast.Subscript) and norm(st.targets[0].value) == "jcall":
            sl = st.targets[0].slice
            cs = [c for c in ast.walk(sl) if isinstance(c, ast.Compare)]
            key = {}
            for c in cs:
                if isinstance(c.ops[0], ast.Eq) and isinstance(c.comparators[0], ast.Constant):
                    key[norm(c.left)] = c.comparators[0].value
            if set(key) == {"qni", "qnj"} and isinstance(st.value, ast.Constant):
                pairs[(key["qni"], key["qnj"])] = (st.value.value, st)
    need = [(1, 1), (2, 1), (2, 2), (3, 1), (3, 2), (3, 3)]
    for p in need:
        ctx.check(p in pairs and pairs[p][0] != 0, "R2", dm, pairs[p][1] if p in pairs else df, "diatom_overlap_matrix_PM6_SP", f"jcall[{p}]",
                  f"principal quantum numbers {p} select a routine (id {pairs.get(p, ('-',))[0]})",
                  f"principal quantum numbers {p} have no routine id: supported elements are rejected" if p not in pairs else
                  f"principal quantum numbers {p} map to 0: supported elements are rejected")
    ids = [v[0] for v in pairs.values()]
    ctx.check(len(ids) == len(set(ids)), "R2", dm, df, "diatom_overlap_matrix_PM6_SP", "jcall ids", "routine ids are pairwise distinct",
              f"two quantum-number pairs share a routine id: {sorted(ids)}")
    for p, (v, st) in pairs.items():
        ctx.check(p in need, "R2", dm, st, "diatom_overlap_matrix_PM6_SP", f"jcall[{p}]", f"pair {p} is in the supported set",
                  f"pair {p} is marked supported (id {v}) but no overlap routine exists for it: the guard is bypassed")

    # ---------------------------------------------------------------- R3 placement in callers
    init_f = mol.func("Molecule.__init__")
    g = build_cfg(init_f)
    chk = [n.id for n in g.nodes if n.kind == "stmt" and any((call_name(c) or "").split(".")[-1] == "check_input" for c in calls_in(n.stmt))]
    first_arg_ok = False
    for n in chk:
        for c in calls_in(g.nodes[n].stmt):
            if (call_name(c) or "").split(".")[-1] == "check_input" and c.args and norm(c.args[0]) == "species":
                first_arg_ok = True
    spec_param = "species" in [a.arg for a in init_f.args.args]
    users = [n.id for n in g.nodes if n.kind == "stmt" and n.id not in chk and any(
        (callee_attr(c) in ("parser", "get_coordinates", "get_parameters") or (call_name(c) or "").split(".")[-1] in ("Parser", "Pack_Parameters"))
        for c in calls_in(n.stmt))]
    if not chk:
        ctx.fail("R3", mol, init_f, "Molecule.__init__", "check_input call", "Molecule.__init__ no longer calls check_input: unsorted species rows are accepted")
    else:
        ctx.check(first_arg_ok and spec_param, "R3", mol, g.nodes[chk[0]].stmt, "Molecule.__init__", "check_input(species)", "check_input receives the constructor's species argument",
                  "check_input is not applied to the species argument")
        dom = all(g.dominated_by_any(g.exit_return, set(chk)) for _ in (0,))
        ctx.check(dom, "R3", mol, g.nodes[chk[0]].stmt, "Molecule.__init__", "check_input dominates exit", "every path through the constructor runs check_input",
                  "a path through Molecule.__init__ skips check_input (the call became conditional)")
        late = [u for u in users if not g.dominated_by_any(u, set(chk))]
        ctx.check(bool(users) and not late, "R3", mol, g.nodes[late[0]].stmt if late else init_f, "Molecule.__init__", "check_input before parsing",
                  f"check_input precedes the {len(users)} parser / parameter calls",
                  "the parser runs before check_input: an unsorted batch is parsed (and may fail obscurely or produce state) before it is rejected")
    # species reassigned between? check_input must see the same tensor that is stored
    stores = [st for st in ast.walk(init_f) if isinstance(st, ast.Assign) and any(norm(t) == "self.species" for t in st.targets)]
    ctx.check(len(stores) == 1 and norm(stores[0].value) == "species", "R3", mol, stores[0] if stores else init_f, "Molecule.__init__", "self.species = species",
              "the checked tensor is the one stored", f"self.species is set from {[norm(s.value) for s in stores]}, not from the checked argument")

    scf = repo.mod(SCF)
    for drv in ("scf_forward0", "scf_forward1", "scf_forward2", "scf_forward3", "scf_forward0_u", "scf_forward1_u"):
        if not scf.has_func(drv):
            continue
        f = scf.func(drv)
        g = build_cfg(f)
        fac = [n.id for n in g.nodes if n.kind == "stmt" and any((call_name(c) or "") == "make_Pnew_factory" for c in calls_in(n.stmt))]
        if not fac:
            continue
        loops = [n.id for n in g.nodes if n.kind in ("while", "for")]
        bad = [l for l in loops if not g.dominated_by_any(l, set(fac))]
        # the openshell argument must be derived from the density's rank / the unrestricted flag
        arg = None
        for n in fac:
            for c in calls_in(g.nodes[n].stmt):
                if (call_name(c) or "") == "make_Pnew_factory":
                    for kw in c.keywords:
                        if kw.arg == "openshell":
                            arg = kw.value
                    if arg is None and len(c.args) >= 6:
                        arg = c.args[5]
        ctx.check(not bad, "R3", scf, g.nodes[fac[0]].stmt, drv, "make_Pnew_factory before loop", "the solver factory (with its UHF guards) is built before the first iteration",
                  "an SCF iteration loop starts before make_Pnew_factory has validated the request")
        rhf_only = {p for row in GUARDS if row[3].get("unrestricted") for p in row[4]}
        const_false_ok = isinstance(arg, ast.Constant) and arg.value is False and drv in rhf_only
        ctx.check(arg is not None and (not isinstance(arg, ast.Constant) or const_false_ok), "R3", scf, g.nodes[fac[0]].stmt, drv, "make_Pnew_factory(openshell=...)",
                  f"openshell is passed from the request ({norm(arg)})" if not const_false_ok else f"{drv} is restricted-only: every call site is behind a UHF guard (R1 rows with producer {drv})", f"openshell is {norm(arg) if arg is not None else 'not passed'}: the UHF guards in the factory cannot fire")
    ctx.floor("R2", 12)
    ctx.floor("R3", 6)
    ctx.note("Not decided: finiteness of energies/forces/charges for accepted inputs (floating-point range of exp/sqrt/divisions over geometry and "
             "parameter tables); only the non-convergence flag plumbing is covered, by C03.")


def _subst_ifexp(node, flag):
    """replace `a if <test mentioning PM6> else b` by a (flag) or b"""
    class T(ast.NodeTransformer):
        def visit_IfExp(self, n):
            self.generic_visit(n)
            if "PM6" in norm(n.test):
                eq = any(isinstance(c, ast.Compare) and isinstance(c.ops[0], ast.Eq) for c in ast.walk(n.test))
                take_body = flag if eq else not flag
                return n.body if take_body else n.orelse
            return n
    import copy
    return T().visit(copy.deepcopy(node))
