"""C20 -- steepest-descent geometry optimisation descends and stops truthfully (structural clauses)."""
from __future__ import annotations

import ast

from ..cfg import build_cfg
from ..exprs import to_sympy
from ..guards import controlling
from ..loader import AnalysisError, attr_chain, call_name, callee_attr, calls_in, names_in, norm, short
from ..mdstep import MD, ZeroOnPad, local_defs, md_funcs, mutated_phase_attr

LEVEL = "other"
EXPLANATION = (
    "R1 onestep: on every path the force evaluation precedes the read of molecule.force which precedes the single coordinate "
    "update, the update is coordinates += alpha*force (sympy normal form, + sign with force = -gradient), under no_grad, with "
    "density reuse P0 = molecule.dm, and it returns this evaluation's force and energy; R2 run: loop bounded by "
    "range(self.max_evl), stop test is max|force| > force_tol -> continue else break, the returned residual force / energy "
    "change are those of the last evaluation, Lold is carried; R3 truthful report: the 'not converged' report is reachable only "
    "through loop exhaustion and the 'converged' report only through the break (CFG reachability), so meeting the tolerance on "
    "the last allowed evaluation is not reported as failure; R4 padding / isolation: the only coordinate write adds alpha*force "
    "(zero on padding rows by C01-R4), no cross-molecule reduction enters the update. Monotone descent for small alpha is not decided."
)
ASSUMPTIONS = ["molecule.force returned by the driver is minus the gradient of molecule.Etot and zero on padding rows (C01)"]
TRUSTED = ["report statements are identified by the literals 'not converged' / 'converged' in their message"]

CLS = "Geometry_Optimization_SD"


# ---------------------------------------------------------------------------------------------------------------------------------
# residual recognisers (by structure, not by spelling): "largest absolute force component" is any chain of max-reductions over
# |force|; a chain that ends in a reduction without `dim` is the whole-batch maximum ('global'), a chain with dims over the atom /
# component axes only is a per-molecule maximum ('rows').
def _absmax_kind(e, force, defs, depth=0):
    """'global' | 'rows' | 'abs' | None for an expression over the force tensor `force`."""
    if depth > 6:
        return None
    if isinstance(e, ast.Name) and e.id != force and e.id in defs and len(defs[e.id]) == 1:
        return _absmax_kind(defs[e.id][0], force, defs, depth + 1)
    if isinstance(e, ast.Subscript) and isinstance(e.slice, ast.Constant) and e.slice.value == 0:
        # torch.max(x, dim=d)[0]
        k = _absmax_kind(e.value, force, defs, depth + 1)
        return k
    if isinstance(e, ast.Attribute) and e.attr == "values":
        return _absmax_kind(e.value, force, defs, depth + 1)
    if not isinstance(e, ast.Call):
        return None
    fn = call_name(e) or ""
    meth = callee_attr(e)
    # abs
    if (fn in ("torch.abs", "abs") and len(e.args) == 1) or (meth == "abs" and isinstance(e.func, ast.Attribute) and not e.args and not fn.startswith("torch.")):
        base = e.args[0] if e.args else e.func.value
        if isinstance(base, ast.Name) and base.id != force and base.id in defs and len(defs[base.id]) == 1:
            base = defs[base.id][0]
        return "abs" if norm(base) in (force, f"{force}.detach()") else None
    if meth in ("max", "amax"):
        if fn in ("torch.max", "torch.amax"):
            if not e.args:
                return None
            inner, rest = e.args[0], list(e.args[1:])
        else:
            inner, rest = e.func.value, list(e.args)
        has_dim = bool(rest) or any(k.arg in ("dim", "axis") for k in e.keywords)
        k = _absmax_kind(inner, force, defs, depth + 1)
        if k is None:
            return None
        if not has_dim:
            return "global"
        # a reduction over named axes of |force| or of a per-molecule maximum stays per molecule unless axis 0 is reduced
        dims = rest[0] if rest else next((kw.value for kw in e.keywords if kw.arg in ("dim", "axis")), None)
        try:
            dv = ast.literal_eval(dims)
        except Exception:
            return None
        dv = (dv,) if isinstance(dv, int) else tuple(dv)
        if k == "global":
            return "global"
        if 0 in dv:
            return "global" if (k == "rows" or set(dv) >= {0, 1, 2} or set(dv) >= {0, -1, -2}) else None
        return "rows"
    return None


def _is_mean_change(e, new, old, defs):
    """e == mean over molecules of (new - old): (new-old).sum()/nmol, torch.mean(new-old), (new-old).mean(), (new.sum()-old.sum())/nmol, ...
    decided by interpreting the expression as a linear form over {new, old} with 'sum' / 'mean' reductions over the molecule axis."""
    nmol_names = {"nmol"} | {k for k, v in defs.items() if len(v) == 1 and norm(v[0]).replace(" ", "") in (f"{new}.shape[0]", f"{new}.numel()", f"len({new})", "molecule.nmol", "molecule.species.shape[0]", "molecule.coordinates.shape[0]")}

    def lin(x):
        # returns {name: (coef_per_element, reduced?)} with coefficient as a Fraction-like pair (num, uses_nmol_division)
        import fractions
        if isinstance(x, ast.Name):
            if x.id in (new, old):
                return {x.id: (fractions.Fraction(1), 0, False)}   # (coef, power of 1/nmol, reduced)
            if x.id in defs and len(defs[x.id]) == 1:
                return lin(defs[x.id][0])
            return None
        if isinstance(x, ast.BinOp) and isinstance(x.op, (ast.Add, ast.Sub)):
            a, b = lin(x.left), lin(x.right)
            if a is None or b is None:
                return None
            out = dict(a)
            for k, (c, pw, red) in b.items():
                c = c if isinstance(x.op, ast.Add) else -c
                if k in out:
                    c0, pw0, red0 = out[k]
                    if pw0 != pw or red0 != red:
                        return None
                    out[k] = (c0 + c, pw, red)
                else:
                    out[k] = (c, pw, red)
            reds = {v[2] for v in out.values()}
            return out if len(reds) == 1 else None
        if isinstance(x, ast.UnaryOp) and isinstance(x.op, ast.USub):
            a = lin(x.operand)
            return None if a is None else {k: (-c, pw, red) for k, (c, pw, red) in a.items()}
        if isinstance(x, ast.BinOp) and isinstance(x.op, ast.Div) and (norm(x.right) in nmol_names or norm(x.right).replace(" ", "") in (f"float({n})" for n in nmol_names)):
            a = lin(x.left)
            return None if a is None else {k: (c, pw + 1, red) for k, (c, pw, red) in a.items()}
        if isinstance(x, ast.Call):
            fn, meth = call_name(x) or "", callee_attr(x)
            inner = None
            if fn in ("torch.sum", "torch.mean") and x.args:
                inner = x.args[0]
            elif meth in ("sum", "mean") and isinstance(x.func, ast.Attribute) and not fn.startswith("torch."):
                inner = x.func.value
            if inner is not None:
                a = lin(inner)
                if a is None or any(red for _, _, red in a.values()):
                    return None
                return {k: (c, pw + (1 if meth == "mean" else 0), True) for k, (c, pw, _) in a.items()}
            if meth in ("detach", "item") and isinstance(x.func, ast.Attribute):
                return lin(x.func.value)
        return None
    r = lin(e)
    return r is not None and set(r) == {new, old} and r[new] == (1, 1, True) and r[old] == (-1, 1, True)


def _stop_atom(a, FE_kind, tol="self.force_tol"):
    """Classify a controlling atom of the stop decision: returns 'met' if the atom is true exactly when every molecule's largest
    absolute force component is <= tol, 'unmet' if it is true exactly when some component exceeds tol, None otherwise.
    FE_kind maps an expression to 'global' / 'rows' / None."""
    def side(x):
        return "tol" if norm(x) == tol else FE_kind(x)
    if isinstance(a, ast.Compare) and len(a.ops) == 1:
        l, r, op = side(a.left), side(a.comparators[0]), a.ops[0]
        if l == "global" and r == "tol":
            return {ast.Gt: "unmet", ast.LtE: "met"}.get(type(op))
        if l == "tol" and r == "global":
            return {ast.Lt: "unmet", ast.GtE: "met"}.get(type(op))
        return None
    if isinstance(a, ast.Call):
        fn, meth = call_name(a) or "", callee_attr(a)
        inner = None
        if fn in ("torch.all", "torch.any", "all", "any") and len(a.args) == 1:
            inner, q = a.args[0], meth
        elif meth in ("all", "any") and isinstance(a.func, ast.Attribute) and not a.args:
            inner, q = a.func.value, meth
        elif fn == "bool" and len(a.args) == 1:
            return _stop_atom(a.args[0], FE_kind, tol)
        if isinstance(inner, ast.Compare) and len(inner.ops) == 1:
            l, r, op = side(inner.left), side(inner.comparators[0]), inner.ops[0]
            if l == "tol" and r in ("rows", "global", "abs"):
                flip = {ast.Lt: ast.Gt, ast.GtE: ast.LtE, ast.Gt: ast.Lt, ast.LtE: ast.GtE}
                l, r, op = r, l, flip.get(type(op), type(op))()
            if l in ("rows", "global", "abs") and r == "tol":
                if isinstance(op, ast.LtE) and q == "all":
                    return "met"
                if isinstance(op, ast.Gt) and q == "any":
                    return "unmet"
                if l == "global":   # a scalar under all()/any() is itself
                    return {ast.Gt: "unmet", ast.LtE: "met"}.get(type(op))
        return None
    if isinstance(a, ast.UnaryOp) and isinstance(a.op, ast.Not):
        k = _stop_atom(a.operand, FE_kind, tol)
        return {"met": "unmet", "unmet": "met"}.get(k)
    return None


def run(ctx):
    import sympy as sp
    md = ctx.repo.mod(MD)
    ctx.rule("R1", "onestep: evaluate, then read force, then x += alpha*force exactly once, under no_grad")
    ctx.rule("R2", "run: bounded loop, stop test on max|force|, returned values are the last evaluation's")
    ctx.rule("R3", "truthful report: 'not converged' only via loop exhaustion, 'converged' only via break")
    ctx.rule("R4", "padding atoms never move; no cross-molecule coupling in the update")

    one = md.func(f"{CLS}.onestep")
    g = build_cfg(one)
    ev = [n for n in g.nodes if n.kind == "stmt" and any(callee_attr(c) == "esdriver" for c in calls_in(n.stmt))]
    upd = [n for n in g.nodes if n.kind == "stmt" and any(a == "coordinates" for a, _, _ in mutated_phase_attr(n.stmt))]
    ctx.check(len(ev) == 1 and len(upd) == 1, "R1", md, one, f"{CLS}.onestep", one.name, "one force evaluation and one coordinate update per step",
              f"{len(ev)} force evaluations and {len(upd)} coordinate updates in onestep")
    if len(ev) == 1 and len(upd) == 1:
        e, u = ev[0], upd[0]
        attr, how, node = [m for m in mutated_phase_attr(u.stmt) if m[0] == "coordinates"][0]
        defs = local_defs(one)
        alpha, F = sp.Symbol("alpha", positive=True), sp.Symbol("F", real=True)
        env = {"self.alpha": alpha, "molecule.force": F}
        # local names: must be defined after the evaluation
        stale = []

        def atom(n):
            if isinstance(n, ast.Name) and n.id in defs and len(defs[n.id]) == 1:
                dnode = [x for x in g.nodes if x.kind == "stmt" and isinstance(x.stmt, ast.Assign) and x.stmt.value is defs[n.id][0]]
                if dnode and "molecule.force" in norm(defs[n.id][0]) and not (g.dominates(e.id, dnode[0].id) and dnode[0].id in g.reachable(e.id)):
                    stale.append(n.id)
                return to_sympy(defs[n.id][0], env, md_funcs(), atom)
            return None
        ok_expr = False
        val = None
        if how in ("add_", "sub_") and node.args:
            try:
                val = to_sympy(node.args[0], env, md_funcs(), atom)
                if how == "sub_":
                    val = -val
                ok_expr = sp.simplify(val - alpha * F) == 0
            except AnalysisError as ex:
                val = str(ex)
        elif how == "aug" and isinstance(node.op, (ast.Add, ast.Sub)):
            try:
                val = to_sympy(node.value, env, md_funcs(), atom)
                if isinstance(node.op, ast.Sub):
                    val = -val
                ok_expr = sp.simplify(val - alpha * F) == 0
            except AnalysisError as ex:
                val = str(ex)
        ctx.check(ok_expr, "R1", md, node, f"{CLS}.onestep", node, "update is coordinates += alpha * force (downhill: force = -gradient)",
                  f"coordinate update `{short(node, 70)}` adds {val}, not +alpha*force")
        ctx.check(not stale and g.dominates(e.id, u.id) and u.id in g.reachable(e.id), "R1", md, node, f"{CLS}.onestep", node,
                  "the force used in the update is read after the evaluation of the current geometry",
                  f"the update uses a force read before the evaluation of the current geometry (stale: {stale})" if stale else
                  "the coordinate update is not dominated by the force evaluation")
        withs = [w for w in ast.walk(one) if isinstance(w, ast.With) and "no_grad" in norm(w.items[0].context_expr) and any(x is node for x in ast.walk(w))]
        ctx.check(bool(withs), "R1", md, node, f"{CLS}.onestep", node, "update runs under torch.no_grad()", "coordinate update is tracked by autograd")
        call = [c for c in calls_in(e.stmt) if callee_attr(c) == "esdriver"][0]
        kws = {k.arg: norm(k.value) for k in call.keywords}
        ctx.check(norm(call.args[0]) == "molecule" and kws.get("P0") == "molecule.dm" and kws.get("dm_prop") == "'SCF'", "R1", md, call, f"{CLS}.onestep", call,
                  "evaluation is a full SCF on the molecule reusing the previous density", f"driver called with {[norm(a) for a in call.args]} {kws}")
        rets = [n for n in g.nodes if n.kind == "stmt" and isinstance(n.stmt, ast.Return)]
        ok_ret = len(rets) == 1 and isinstance(rets[0].stmt.value, ast.Tuple) and len(rets[0].stmt.value.elts) == 2 \
            and norm(rets[0].stmt.value.elts[1]) == "molecule.Etot" and norm(rets[0].stmt.value.elts[0]) in ("force", "molecule.force")
        ctx.check(ok_ret, "R1", md, rets[0].stmt if rets else one, f"{CLS}.onestep", rets[0].stmt if rets else one.name,
                  "onestep returns (force, Etot) of the evaluated geometry", "onestep no longer returns (force, molecule.Etot)")

    # ------------------------------------------------------------------ R2
    rn = md.func(f"{CLS}.run")
    g = build_cfg(rn)
    loops = [n for n in g.nodes if n.kind == "for"]
    main = [n for n in loops if any(callee_attr(c) == "onestep" for c in calls_in(n.stmt))]
    if len(main) != 1:
        raise AnalysisError("SD run(): main loop not found")
    L = main[0]
    ctx.check(norm(L.expr).replace(" ", "") == "range(self.max_evl)", "R2", md, L.stmt, f"{CLS}.run", L.expr, "evaluation cap: for i in range(self.max_evl)",
              f"loop iterates `{norm(L.expr)}`")
    body_nodes = g.loop_body(L.id)
    # the loop is left early through `break`, or through a `return` inside the loop body (both count as "stopping before the cap")
    breaks = [n for n in g.nodes if n.kind == "stmt" and n.id in body_nodes and _innermost_loop(md, n.stmt) is L.stmt
              and (isinstance(n.stmt, ast.Break) or (isinstance(n.stmt, ast.Return) and n.id in body_nodes))]
    conts = [n for n in g.nodes if n.kind == "stmt" and isinstance(n.stmt, ast.Continue) and _innermost_loop(md, n.stmt) is L.stmt]
    ctx.check(len(breaks) >= 1, "R2", md, L.stmt, f"{CLS}.run", "break", "the loop can stop before the cap", "the optimiser never stops before the cap")
    # interface names by position, not by spelling: run returns (max force, energy change); onestep yields (force, energy)
    _rets = [n for n in g.nodes if n.kind == "stmt" and isinstance(n.stmt, ast.Return) and isinstance(n.stmt.value, ast.Tuple) and len(n.stmt.value.elts) == 2
             and all(isinstance(e, ast.Name) for e in n.stmt.value.elts)]
    if not _rets:
        raise AnalysisError("SD run(): no `return <max force>, <energy change>` found")
    FE, EE = (e.id for e in _rets[0].stmt.value.elts)
    _steps = [n for n in g.nodes if n.kind == "stmt" and isinstance(n.stmt, ast.Assign) and any(callee_attr(c) == "onestep" for c in calls_in(n.stmt))
              and isinstance(n.stmt.targets[0], ast.Tuple) and len(n.stmt.targets[0].elts) == 2 and all(isinstance(e, ast.Name) for e in n.stmt.targets[0].elts)]
    if not _steps:
        raise AnalysisError("SD run(): `<force>, <energy> = self.onestep(...)` not found")
    FORCE, LNEW = (e.id for e in _steps[0].stmt.targets[0].elts)
    defs = local_defs(rn)
    fe = defs.get(FE, [])
    _loop_defs = {k: v for k, v in defs.items() if k != FORCE}
    ok_fe = len(fe) == 1 and _absmax_kind(fe[0], FORCE, _loop_defs) == "global"
    ctx.check(ok_fe, "R2", md, rn, f"{CLS}.run", FE, "residual = largest absolute force component (a chain of max-reductions over |force| ending in the whole-batch maximum)",
              f"{FE} defined as {[norm(x) for x in fe]}, which is not the largest absolute force component of the batch")

    def FE_kind(x):
        return _absmax_kind(x, FORCE, _loop_defs)

    def stop_verdict(ctrl):
        """ctrl: [(atom, polarity, if-node)] -> 'met' / 'unmet' / None (not exactly the stop criterion)"""
        if len(ctrl) != 1:
            return None
        a, pol, _ = ctrl[0]
        k = _stop_atom(a, FE_kind)
        if k is None:
            return None
        return k if pol else {"met": "unmet", "unmet": "met"}[k]
    for b in breaks:
        ctrl = controlling(md, b.stmt, stop=L.stmt)
        txt = [(norm(a).replace(" ", ""), p) for a, p, _ in ctrl]
        ctx.check(stop_verdict(ctrl) == "met", "R2", md, b.stmt, f"{CLS}.run", b.stmt, "break exactly when max|force| <= force_tol (every molecule)",
                  f"loop breaks under {txt} instead of `max|force| <= self.force_tol` for every molecule")
    for c in conts:
        ctrl = controlling(md, c.stmt, stop=L.stmt)
        txt = [(norm(a).replace(" ", ""), p) for a, p, _ in ctrl]
        ctx.check(stop_verdict(ctrl) == "unmet", "R2", md, c.stmt, f"{CLS}.run", c.stmt, "continue exactly when max|force| > force_tol (some molecule)",
                  f"loop continues under {txt}")
    # force_err computed from this iteration's force, before the test
    step_nodes = [n for n in g.nodes if n.kind == "stmt" and any(callee_attr(c) == "onestep" for c in calls_in(n.stmt))]
    fe_nodes = [n for n in g.nodes if n.kind == "stmt" and isinstance(n.stmt, ast.Assign) and norm(n.stmt.targets[0]) == FE]
    ee_nodes = [n for n in g.nodes if n.kind == "stmt" and isinstance(n.stmt, ast.Assign) and norm(n.stmt.targets[0]) == EE]
    if not (step_nodes and fe_nodes and ee_nodes):
        raise AnalysisError("SD run(): force_err / energy_err definitions not found")
    st = step_nodes[0]
    tgt = st.stmt.targets[0] if isinstance(st.stmt, ast.Assign) else None
    ok = isinstance(tgt, ast.Tuple) and [norm(e) for e in tgt.elts] == [FORCE, LNEW]
    ctx.check(ok, "R2", md, st.stmt, f"{CLS}.run", st.stmt, "(force, Lnew) are this iteration's onestep results", "onestep results are not bound to (force, Lnew)")
    for b in breaks + conts:
        for nn, nm in ((fe_nodes[0], FE), (ee_nodes[0], EE)):
            ctx.check(g.must_pass(st.id, b.id, {nn.id}) and b.id in g.reachable(st.id, avoid={L.id}), "R2", md, nn.stmt, f"{CLS}.run", nn.stmt,
                      f"{nm} is recomputed from the current evaluation before the stop test", f"{nm} is not recomputed between onestep and the stop test")
    _ev = ee_nodes[0].stmt.value
    _others = sorted({x.id for x in ast.walk(_ev) if isinstance(x, ast.Name)} - {LNEW, "nmol", "torch"})
    LOLD = _others[0] if len(_others) == 1 else "Lold"
    ctx.check(_is_mean_change(_ev, LNEW, LOLD, defs), "R2", md, ee_nodes[0].stmt, f"{CLS}.run", ee_nodes[0].stmt,
              "energy change = mean over molecules of Lnew - Lold", f"energy_err = `{norm(ee_nodes[0].stmt.value)}`")
    lold = [n for n in g.nodes if n.kind == "stmt" and isinstance(n.stmt, ast.Assign) and norm(n.stmt.targets[0]) == LOLD and n.id in body_nodes]
    ctx.check(bool(lold) and all(norm(n.stmt.value) == LNEW for n in lold) and all(g.must_pass(st.id, c.id, {n.id for n in lold}) for c in conts), "R2", md,
              lold[0].stmt if lold else rn, f"{CLS}.run", "Lold = Lnew", "previous energy is carried to the next iteration", "Lold is not updated on every continuing path")
    rets = [n for n in g.nodes if n.kind == "stmt" and isinstance(n.stmt, ast.Return)]
    ok = bool(rets) and all(isinstance(r.stmt.value, ast.Tuple) and [norm(e) for e in r.stmt.value.elts] == [FE, EE] for r in rets)
    ctx.check(ok, "R2", md, rets[0].stmt if rets else rn, f"{CLS}.run", "return", "run returns (force_err, energy_err) of the last evaluation", "run does not return (force_err, energy_err)")
    # nothing rebinds them after the loop
    late = [n for n in (fe_nodes + ee_nodes) if n.id not in body_nodes]
    ctx.check(not late, "R2", md, rn, f"{CLS}.run", "post-loop", "returned values are not recomputed after the loop", "force_err/energy_err are rebound after the loop")

    # ------------------------------------------------------------------ R3
    def msg_nodes(needle, exclude=None):
        out = []
        for n in g.nodes:
            if n.kind != "stmt":
                continue
            for c in ast.walk(n.stmt):
                txt_ = None
                if isinstance(c, ast.Constant) and isinstance(c.value, str):
                    txt_ = c.value
                elif isinstance(c, ast.Name) and c.id in getattr(md, "globals", {}):
                    # a message template kept as a module-level string constant
                    try:
                        v_ = ast.literal_eval(md.globals[c.id])
                        txt_ = v_ if isinstance(v_, str) else None
                    except (ValueError, SyntaxError, TypeError):
                        txt_ = None
                if txt_ is not None and needle in txt_ and (exclude is None or exclude not in txt_):
                    out.append(n)
                    break
        return out
    notconv = msg_nodes("not converged")
    conv = msg_nodes("converged", exclude="not converged")
    if not notconv or not conv:
        raise AnalysisError("SD run(): convergence report statements not found")
    break_ids = {b.id for b in breaks}
    body_set = set(body_nodes)
    # the decision that leads to the early exit: the innermost `if` of the loop that controls the exit statement, with the polarity under which the exit is taken.
    # Everything after that decision (a report printed before a `return` inside the loop, or after a `break`) happens "because the stop test succeeded".
    decide = set()
    for b in breaks:
        ctrl_ = controlling(md, b.stmt, stop=L.stmt)
        if ctrl_:
            iff_ = ctrl_[0][2]
            for n_ in g.nodes:
                if n_.kind == "if" and n_.stmt is iff_:
                    # polarity of the whole test for the branch that holds the exit
                    in_body = any(b.stmt is x or b.stmt in ast.walk(x) for x in iff_.body)
                    decide.add((n_.id, "true" if in_body else "false"))

    def tag_edge(a, b, lab, tag):
        # leaving the loop: through the successful stop test (break / return in the body), or through exhaustion of the iterator
        if (a, lab) in decide:
            return "break"
        if a in break_ids and lab == "break":
            return "break"
        if a == L.id and lab == "false":
            return "exhausted"
        if b == L.id:
            return None  # next iteration: not left yet
        return tag
    states = g.explore_tagged(tag_edge)
    # a report that re-tests the stop criterion itself is decided by how the loop ended: after a break the residual is <= tol, after exhaustion it is > tol
    # (the residual is not rebound after the loop: R2), so such a guard prunes the other way of leaving the loop
    def retests(n, met):
        txt = {(norm(a).replace(" ", ""), p) for a, p, _ in controlling(md, n.stmt)}
        yes = {(f"{FE}<=self.force_tol", True), (f"{FE}>self.force_tol", False), (f"self.force_tol>={FE}", True), (f"self.force_tol<{FE}", False)}
        no = {(c, not p) for c, p in yes}
        return bool(txt & (yes if met else no)) and not [x for x in fe_nodes if x.id not in body_nodes]
    bad_not = [n for n in notconv if (n.id, "break") in states and not retests(n, False)]
    bad_conv = [n for n in conv if (n.id, "exhausted") in states and not retests(n, True)]
    if bad_not or bad_conv:
        # one finding, keyed on the construct that decides the report
        decider = None
        for n in (bad_not or bad_conv):
            ctrl = controlling(md, n.stmt)
            if ctrl:
                decider = ctrl[0][2]
        what = []
        if bad_not:
            what.append("'not converged' can be reported after the loop stopped through `break` (tolerance met on the last allowed "
                        "evaluation is reported as failure)")
        if bad_conv:
            what.append("'converged' is reachable after the cap was exhausted")
        ctx.fail("R3", md, decider.test if decider is not None else (bad_not or bad_conv)[0].stmt, f"{CLS}.run",
                 decider.test if decider is not None else (bad_not or bad_conv)[0].stmt,
                 "; ".join(what) + ": the report is decided from something other than how the loop ended")
    else:
        ctx.ok("R3", f"{md.rel}:{notconv[0].lineno} {CLS}.run", "'not converged' only via loop exhaustion and 'converged' only via break, on all flag-feasible paths")
    for n in notconv:
        ctx.check((n.id, "exhausted") in states, "R3", md, n.stmt, f"{CLS}.run", n.stmt,
                  "'not converged' is reported when the cap is exhausted", "'not converged' is unreachable after loop exhaustion: hitting the cap is not reported")
    for n in conv:
        ctx.check((n.id, "break") in states, "R3", md, n.stmt, f"{CLS}.run", n.stmt,
                  "'converged' is reported when the stop test succeeds", "'converged' is unreachable after the stop test succeeded")

    # ------------------------------------------------------------------ R4
    writes = []
    for q in (f"{CLS}.onestep", f"{CLS}.run", f"{CLS}.__init__"):
        f = md.func(q)
        for stt in ast.walk(f):
            if isinstance(stt, ast.stmt) and not isinstance(stt, (ast.With, ast.For, ast.If, ast.FunctionDef, ast.While, ast.Try)):
                for attr, how, node in mutated_phase_attr(stt):
                    if attr == "coordinates":
                        writes.append((q, node))
    ctx.check(len(writes) == 1 and writes[0][0] == f"{CLS}.onestep", "R4", md, writes[0][1] if writes else one, f"{CLS}", "coordinate writes",
              "the optimiser moves atoms only through x += alpha*force (zero on padding rows, row-local)",
              f"coordinate writes in the optimiser: {[(q, short(n, 40)) for q, n in writes]}")
    if writes:
        zp = ZeroOnPad(one)
        node = writes[0][1]
        val = node.args[0] if isinstance(node, ast.Call) and node.args else getattr(node, "value", None)
        ctx.check(val is not None and zp.is_z(val), "R4", md, node, f"{CLS}.onestep", node, "displacement is zero on padding rows",
                  f"displacement `{norm(val)}` is not zero on padding rows: padding atoms move")
        red = []
        if val is not None:
            ldefs = local_defs(one)
            todo, seen = [val], set()
            while todo:
                e = todo.pop()
                red += [c for c in calls_in(e) if callee_attr(c) in ("sum", "mean", "max", "min", "norm", "amax", "amin", "median")]
                for nm in names_in(e):
                    if nm in ldefs and nm not in seen:
                        seen.add(nm)
                        todo += ldefs[nm]
        ctx.check(not red, "R4", md, node, f"{CLS}.onestep", node, "no reduction over the batch enters the displacement",
                  f"displacement contains a reduction `{short(red[0], 40) if red else ''}`: one molecule's path depends on the others")


def _innermost_loop(md, node):
    cur = md.parents.get(node)
    while cur is not None:
        if isinstance(cur, (ast.For, ast.While)):
            return cur
        cur = md.parents.get(cur)
    return None
