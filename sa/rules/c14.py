"""C14 -- reported observables are mutually consistent (structural clauses)."""
from __future__ import annotations

import ast

from ..exprs import identically, to_sympy, torch_funcs
from ..guards import controlling
from ..loader import AnalysisError, call_name, callee_attr, calls_in, names_in, norm, short

LEVEL = "other"
BS = "seqm/basics.py"
ES = "seqm/ElectronicStructure.py"
XL = "seqm/dynamics/xlbomd.py"
EN = "seqm/seqm_functions/energy.py"
EXPLANATION = (
    "R1 producer/consumer tuple agreement: the names in every return tuple of Energy.forward, Force.forward, EnergyXL.forward, "
    "ForceXL.forward, Hamiltonian.forward and scf_loop are matched positionally (modulo a small alias map) with the unpack "
    "targets one level up, ending in the attributes Electronic_Structure.forward publishes on the molecule; R2 assembly: "
    "Etot = Eelec + index_add(pair_molid, EnucAB), the active-state excitation energy is added exactly once and before the heat "
    "of formation, Hf = Etot - sum Eiso (+ sum eheat), dispersion only under its flag; R3 every HOMO-LUMO gap expression is "
    "e[n] - e[n-1] with n the occupation number of the same spin; R4 the four charge arms are tore[species] minus the "
    "block-diagonal populations of the reported density with the orbital count of the method arm; the dipole is nuclear plus "
    "electronic with the same tore and coordinates. Numerical identities (e.g. eigenvalues of the reported Fock matrix) are not decided."
)
ASSUMPTIONS = ["observables are published only by Electronic_Structure.forward"]
TRUSTED = ["alias map between producer and consumer names (listed in the checker)"]

ALIASES = [{"D", "P", "dm", "molecule.dm", "Pconv"}, {"e", "e_mo", "molecule.e_mo"}, {"Eiso", "Eiso_sum", "molecule.Eiso"}, {"force", "molecule.force"},
           {"Hf", "molecule.Hf"}, {"Etot", "molecule.Etot"}, {"Eelec", "molecule.Eelec"}, {"Enuc", "molecule.Enuc"}, {"e_gap", "molecule.e_gap"},
           {"charge", "self.charge"}, {"notconverged", "self.notconverged"}, {"EEnt", "molecule.Electronic_entropy"}, {"dP2dt2", "molecule.dP2dt2"},
           {"Error", "molecule.Krylov_Error"}, {"Fe_occ", "molecule.Fermi_occ"}, {"_", "EnucAB"}, {"molecular_orbitals", "v"}, {"F"}, {"Hcore"}, {"w"},
           {"rho0xi"}, {"rho0xj"}, {"riXH"}, {"ri"}]


def _canon(name: str) -> str:
    n = name.replace(".detach()", "").replace(".clone()", "")
    for grp in ALIASES:
        if n in grp:
            return sorted(grp)[0]
    return n


def _tuple_names(t):
    return [norm(e) for e in (t.elts if isinstance(t, ast.Tuple) else [t])]


def _r2_tail_shape_based(ctx, bs, ef):
    """line-order reading of the Etot / Hf tail (consulted only when the tail cannot be interpreted)"""
    g_stmts = [st for st in ast.walk(ef) if isinstance(st, ast.AugAssign) and norm(st.target) == "Etot"]
    exc = [st for st in g_stmts if norm(st.value) == "Eexcited"]
    ctx.check(len(exc) == 1 and isinstance(exc[0].op, ast.Add), "R2", bs, exc[0] if exc else ef, "Energy.forward", exc[0] if exc else "Etot += Eexcited",
              "active-state excitation energy is added to Etot exactly once", f"Etot receives the excitation energy {len(exc)} times")
    hcall = [st for st in ast.walk(ef) if isinstance(st, ast.Assign) and isinstance(st.value, ast.Call) and callee_attr(st.value) == "heat_formation"]
    tcall = [st for st in ast.walk(ef) if isinstance(st, ast.Assign) and isinstance(st.value, ast.Call) and callee_attr(st.value) == "total_energy"]
    ok = bool(hcall and tcall and exc) and tcall[0].lineno < exc[0].lineno < hcall[0].lineno and "Etot" in [norm(a) for a in hcall[0].value.args]
    ctx.check(ok, "R2", bs, ef, "Energy.forward", "order", "total_energy -> + Eexcited -> heat_formation(Etot)", "excitation energy is added after the heat of formation was computed (Hf and Etot disagree)")
    disp = [st for st in g_stmts if "dispersion" in norm(st.value)]
    okd = bool(disp) and any(p and "dispersion" in norm(a) for a, p, _ in controlling(bs, disp[0])) and exc and disp[0].lineno < hcall[0].lineno
    ctx.check(okd, "R2", bs, disp[0] if disp else ef, "Energy.forward", disp[0] if disp else "dispersion", "dispersion correction only under its flag and before Hf", "dispersion term is added unconditionally or after Hf")


def _r4_shape_based(ctx, es, ef):
    """shape-based reading of the charge / density bookkeeping of Electronic_Structure.forward (consulted only when the routine cannot be interpreted as a whole)"""
    from ..assembly import check_charges_and_dipole
    check_charges_and_dipole(ctx, "R4", parts=("charges",))
    # every evaluation that publishes a new density also publishes the charges that belong to it: on every path from a store to molecule.dm to the end of the call there
    # is a store to molecule.q (SCF and XL-BOMD evaluations alike)
    from ..cfg import build_cfg
    g_es = build_cfg(ef)

    def _stores(attr):
        out = []
        for n_ in g_es.nodes:
            if n_.kind == "stmt" and isinstance(n_.stmt, (ast.Assign, ast.AugAssign)):
                tg = n_.stmt.targets if isinstance(n_.stmt, ast.Assign) else [n_.stmt.target]
                flat = [e_ for t_ in tg for e_ in (t_.elts if isinstance(t_, ast.Tuple) else [t_])]
                if any(norm(e_) == attr for e_ in flat):
                    out.append(n_)
        return out
    dm_st, q_st = _stores("molecule.dm"), _stores("molecule.q")
    if not dm_st or not q_st:
        raise AnalysisError("Electronic_Structure.forward: stores to molecule.dm / molecule.q not found")
    for n_ in dm_st:
        ok_ = g_es.must_pass(n_.id, g_es.exit_return, {x.id for x in q_st}) if g_es.exit_return in g_es.reachable(n_.id) else True
        ctx.check(ok_, "R4", es, n_.stmt, "Electronic_Structure.forward", f"charges after `{short(n_.stmt, 40)}`",
                  "the atomic charges are recomputed on every path after the reported density is replaced",
                  f"after `{short(n_.stmt, 70)}` a path reaches the end of the call without recomputing molecule.q: the reported charges belong to an earlier density "
                  f"(e.g. the last SCF geometry during XL-BOMD) while density, energies and dipole are current")
    dm = [st for st in ast.walk(ef) if isinstance(st, ast.Assign) and norm(st.targets[0]) == "molecule.dm"]
    ctx.check(bool(dm) and norm(dm[0].value) == "P.detach()", "R4", es, dm[0] if dm else ef, "Electronic_Structure.forward", "molecule.dm", "reported density is the density returned by the force driver",
              "molecule.dm is not the returned density")


def run(ctx):
    import sympy as sp
    repo = ctx.repo
    bs, es, xl, en = repo.mod(BS), repo.mod(ES), repo.mod(XL), repo.mod(EN)
    scf = repo.mod("seqm/seqm_functions/scf_loop.py")
    ctx.rule("R1", "producer/consumer tuple agreement along the result pipeline")
    ctx.rule("R2", "energy assembly: Etot, excitation energy once, heat of formation, dispersion flag")
    ctx.rule("R3", "gap = e[nocc] - e[nocc-1] of the same spin everywhere")
    ctx.rule("R4", "charges and dipole follow from the reported density, species and coordinates")
    ctx.rule("R5", "the excitation energy enters Etot only for molecules whose active state is excited; fractional occupations are masked (charges sum to the molecular charge)")
    _r5_excited_rows(ctx, repo)
    from .c05 import check_masked_occupations
    check_masked_occupations(ctx, "R5")

    # ------------------------------------------------------------------ R1
    edges = [
        # (producer module, function, consumer module, function, callee attr at the consumer)
        (scf, "scf_loop", bs, "Hamiltonian.forward", "scf_loop"),
        (bs, "Hamiltonian.forward", bs, "Energy.forward", "hamiltonian"),
        (bs, "Energy.forward", bs, "Force.forward", "energy"),
        (bs, "Force.forward", es, "Electronic_Structure.forward", "conservative_force"),
        (xl, "EnergyXL.forward", xl, "ForceXL.forward", "energy"),
        (xl, "ForceXL.forward", es, "Electronic_Structure.forward", "conservative_force_xl"),
    ]
    try:
        from ..assembly import interpreted_reported_observables as _iro
        _obs_ok = all(o[1] for o in _iro(repo))
    except AnalysisError:
        _obs_ok = False
    for pm, pq, cm, cq, ca in edges:
        if cq == "Electronic_Structure.forward" and _obs_ok:
            # the unpacking of the two force drivers' results into the molecule is decided by value (R4: every result lands in its own attribute)
            ctx.ok("R1", f"{cm.rel} {cq}", f"{pq} -> {cq}: decided by value (R4, interpreted Electronic_Structure.forward)", nontrivial=False)
            continue
        pf, cf = pm.func(pq), cm.func(cq)
        rets = [r for r in ast.walk(pf) if isinstance(r, ast.Return) and pm.enclosing_function(r) is pf and r.value is not None]
        unp = [st for st in ast.walk(cf) if isinstance(st, ast.Assign) and isinstance(st.targets[0], ast.Tuple) and isinstance(st.value, ast.Call) and callee_attr(st.value) == ca]
        if not unp:
            # parenthesised call value
            unp = [st for st in ast.walk(cf) if isinstance(st, ast.Assign) and isinstance(st.targets[0], ast.Tuple) and any(callee_attr(c) == ca for c in calls_in(st.value))]
        if not unp:
            # the call may sit in a method of the same class that the consumer delegates to (one level)
            cls_prefix = cq.rsplit(".", 1)[0] + "." if "." in cq else ""
            for c0 in calls_in(cf):
                if isinstance(c0.func, ast.Attribute) and isinstance(c0.func.value, ast.Name) and c0.func.value.id == "self" and cm.has_func(cls_prefix + c0.func.attr):
                    hf_ = cm.func(cls_prefix + c0.func.attr)
                    unp += [st for st in ast.walk(hf_) if isinstance(st, ast.Assign) and isinstance(st.targets[0], ast.Tuple) and any(callee_attr(c) == ca for c in calls_in(st.value))]
        if not rets or not unp:
            raise AnalysisError(f"{pq} -> {cq}: return/unpack not found")
        tnames = _tuple_names(unp[0].targets[0])
        matched = 0
        for r in rets:
            rn = _tuple_names(r.value)
            if len(rn) != len(tnames):
                continue  # other arm (e.g. all_terms=False) consumed elsewhere
            matched += 1
            bad = [(i, a, b) for i, (a, b) in enumerate(zip(rn, tnames)) if _canon(a) != _canon(b) and b != "_" and not (a in ("None",) or _canon(b) == _canon("molecular_orbitals") and a == "None")]
            ctx.check(not bad, "R1", pm, r, pq, r.value,
                      f"{pq} -> {cq}: {len(rn)} returned values are unpacked under matching names",
                      f"{pq} returns `{bad[0][1]}` at position {bad[0][0]} but {cq} unpacks that position as `{bad[0][2]}`: two observables are swapped on their way to the caller" if bad else "")
        ctx.check(matched >= 1, "R1", cm, unp[0], cq, unp[0].targets[0], f"{cq}: unpack arity matches a return of {pq}",
                  f"{cq} unpacks {len(tnames)} values but no return of {pq} has that arity")
    ctx.floor("R1", 8)

    # ------------------------------------------------------------------ R2
    from ..assembly import check_energy_functions
    check_energy_functions(ctx, "R2", which=("total", "heat", "elec"))
    ef = bs.func("Energy.forward")
    # the tail that assembles Etot and Hf is decided by value (sa.npsym: symbolic parts, dispersion on / off, AM1 / PM3); the line-order reading is the fallback
    from ..assembly import interpreted_energy_tail
    try:
        okt, msgt, _addend = interpreted_energy_tail(repo)
        interp_tail = True
    except AnalysisError as e:
        ctx.note(f"the Etot / Hf tail of Energy.forward could not be interpreted ({str(e)[:100]}); line-order reading used")
        interp_tail = False
    if interp_tail:
        ctx.check(okt, "R2", bs, ef, "Energy.forward", "Etot / Hf assembly",
                  "Etot = Eelec + pair-nuclear terms + excitation energy (+ AM1 dispersion under its flag), each once, and the heat of formation is formed from that final Etot", msgt)
        for _ in range(2):
            ctx.ok("R2", f"{bs.rel}:{ef.lineno} Energy.forward", "decided with the interpreted tail", nontrivial=False)
    else:
        _r2_tail_shape_based(ctx, bs, ef)
    ee = [st for st in ast.walk(ef) if isinstance(st, ast.Assign) and norm(st.targets[0]) == "Eelec"]
    ctx.check(bool(ee) and norm(ee[0].value) == "elec_energy(P, F, Hcore)", "R2", bs, ee[0] if ee else ef, "Energy.forward", "Eelec", "Eelec is the energy functional of the returned density and Fock matrix",
              f"Eelec = `{norm(ee[0].value) if ee else None}`")

    # ------------------------------------------------------------------ R3
    n_gap = 0
    for m, q in ((bs, "Energy.forward"), (xl, "EnergyXL.forward")):
        f = m.func(q)
        for st in ast.walk(f):
            if isinstance(st, ast.Assign) and isinstance(st.targets[0], ast.Name) and st.targets[0].id.startswith("e_gap") and "gather" in norm(st.value):
                n_gap += 1
                v = st.value
                core = v
                while isinstance(core, ast.Call) and isinstance(core.func, ast.Attribute) and core.func.attr in ("reshape", "squeeze", "view"):
                    core = core.func.value
                ok = isinstance(core, ast.BinOp) and isinstance(core.op, ast.Sub)
                if ok:
                    l, r = core.left, core.right
                    ok = callee_attr(l) == "gather" and callee_attr(r) == "gather" and norm(l.func.value) == norm(r.func.value) and norm(l.args[0]) == norm(r.args[0]) == "1"
                    nl, nr = norm(l.args[1]), norm(r.args[1]).replace(" ", "")
                    ok = ok and nr == f"{nl}-1"
                    # n comes from the occupation numbers of the same spin block
                    src = [s for s in ast.walk(f) if isinstance(s, ast.Assign) and nl in [norm(t) for t in (s.targets[0].elts if isinstance(s.targets[0], ast.Tuple) else [s.targets[0]])]]
                    spin = {"e[:, 0]": "[:, 0]", "e[:, 1]": "[:, 1]"}.get(norm(l.func.value))
                    if src:
                        stxt = norm(src[0].value)
                        ok = ok and "molecule.nocc" in stxt
                        if spin and isinstance(src[0].targets[0], ast.Tuple):
                            pos = [norm(t) for t in src[0].targets[0].elts].index(nl)
                            ok = ok and norm(src[0].value.elts[pos]).startswith(f"molecule.nocc{spin}")
                    else:
                        # the index expression is written in place
                        ok = ok and nl.startswith(f"molecule.nocc{spin}" if spin else "molecule.nocc")
                ctx.check(ok, "R3", m, st, q, st, f"{q}: `{st.targets[0].id}` = e[nocc] - e[nocc - 1] of one spin block",
                          f"{q}: gap `{short(st, 80)}` is not LUMO - HOMO of the same spin's orbital energies")
    if n_gap < 4:
        raise AnalysisError(f"only {n_gap} gap expressions found")
    check_gap_before_tracking(ctx, bs, "R3")

    # ------------------------------------------------------------------ R4
    ef = es.func("Electronic_Structure.forward")
    # what Electronic_Structure.forward reports on the molecule is decided by value (sa.npsym: both density-propagation modes x shell type x basis, stand-in force drivers);
    # the shape-based reading of the same routine is the fallback
    from ..assembly import check_charges_and_dipole, interpreted_reported_observables
    try:
        obs = interpreted_reported_observables(repo)
    except AnalysisError as e:
        ctx.note(f"Electronic_Structure.forward could not be interpreted as a whole ({str(e)[:100]}); shape-based reading used")
        obs = None
    if obs is not None:
        for case_, ok_, msg_ in obs:
            ctx.check(ok_, "R4", es, ef, "Electronic_Structure.forward", case_,
                      f"{case_}: every driver result lands in its own attribute, molecule.dm is the returned density and molecule.q its block-diagonal population",
                      f"{case_}: {msg_}")
        check_charges_and_dipole(ctx, "R4", parts=("dipole",))
    else:
        _r4_shape_based(ctx, es, ef)
        check_charges_and_dipole(ctx, "R4", parts=("dipole",))
    # the dipole is computed from the density that is returned/reported
    for m, q in ((bs, "Energy.forward"), (xl, "EnergyXL.forward")):
        f = m.func(q)
        dc = [c for c in calls_in(f) if callee_attr(c) == "calc_ground_dipole"]
        rets = [r for r in ast.walk(f) if isinstance(r, ast.Return) and isinstance(r.value, ast.Tuple) and m.enclosing_function(r) is f]
        returned = set()
        for r in rets:
            returned |= {norm(e) for e in r.value.elts}
        dens = {"D", "P"} & returned
        ok = len(dc) == 1 and len(dens) == 1 and norm(dc[0].args[1]) in dens and norm(dc[0].args[0]) == "molecule"
        ctx.check(ok, "R4", m, dc[0] if dc else f, q, dc[0] if dc else "calc_ground_dipole", f"{q}: dipole is computed from the returned density `{sorted(dens)}`",
                  f"{q}: dipole is computed from `{norm(dc[0].args[1]) if dc else None}` but the density returned (and used for charges) is {sorted(dens)}: dipole and charges describe different densities")
    dp = repo.mod("seqm/seqm_functions/dipole.py")
    cm = dp.func("calc_dipole_matrix")
    signs = [st for st in ast.walk(cm) if isinstance(st, ast.Assign) and "diagonal_dipole[" in norm(st.targets[0]) or (isinstance(st, ast.Assign) and norm(st.targets[0]) == "nonH_coord")]
    txts = sorted(norm(s.value).replace(" ", "") for s in signs if isinstance(s.value, ast.UnaryOp) or "coord" in norm(s.value) or norm(s.value) == "-dd")
    ctx.check(all(x.startswith("-") for x in txts) and len(txts) >= 4, "R4", dp, cm, "calc_dipole_matrix", "electron sign", "electronic dipole integrals carry the electron's negative charge",
              f"dipole matrix elements are {txts}")


def check_gap_before_tracking(ctx, bs, rid):
    """gap read before the orbital-character tracking permutes the energies (shared with C04: a restarted / re-used molecule must report
    the same gap as a cold start)"""
    # the orbital energies a gap is read from are the ascending eigenvalues of the solver, not a character-tracked permutation of them
    from ..cfg import build_cfg
    f = bs.func("Energy.forward")
    g = build_cfg(f)
    gaps = [n for n in g.nodes if n.kind == "stmt" and isinstance(n.stmt, ast.Assign) and isinstance(n.stmt.targets[0], ast.Name)
            and n.stmt.targets[0].id.startswith("e_gap") and "gather" in norm(n.stmt.value)]
    perm = [n for n in g.nodes if n.kind == "stmt" and isinstance(n.stmt, ast.Assign) and any(callee_attr(c) in ("_crossing_match_molecular_orbitals", "_crossing_match_molecular_orbitals_grouped")
                                                                                               for c in calls_in(n.stmt))
            and any(norm(e) == "e" for e in (n.stmt.targets[0].elts if isinstance(n.stmt.targets[0], ast.Tuple) else [n.stmt.targets[0]]))]
    if not gaps or not perm:
        raise AnalysisError("Energy.forward: gap / orbital-tracking statements not found")
    for gp in gaps:
        tainted = [pm for pm in perm if gp.id in g.reachable(pm.id)]
        ctx.check(not tainted, rid, bs, gp.stmt, "Energy.forward", gp.stmt, "gap is read from the solver's ascending orbital energies (before orbital-character tracking permutes them)",
                  f"`{short(gp.stmt, 60)}` can run after `{short(tainted[0].stmt, 60) if tainted else ''}` permuted the orbital energies: after a level "
                  f"crossing on a re-evaluated molecule the reported gap is not LUMO - HOMO")



def _r5_excited_rows(ctx, repo, rid="R5"):
    """`Etot += X` in Energy.forward: X starts as zeros and every later store into X selects rows with the excited-state mask
    (active_states > 0).  A whole-tensor rebinding gives ground-state molecules of a mixed batch an excitation energy.
    One inventoried exception: the XL-ESMD branch (all trajectories are excited there: make_cis_densities raises for active state 0,
    confirmed at run time with active_state = [0, 1])."""
    bas = repo.mod("seqm/basics.py")
    f = bas.func("Energy.forward")
    adds = [st for st in ast.walk(f) if isinstance(st, ast.AugAssign) and isinstance(st.op, ast.Add) and norm(st.target) == "Etot" and isinstance(st.value, ast.Name)]
    from ..guards import controlling
    # the addend that carries the excitation energy: the one whose stores use excitation energies
    cand = None
    for a in adds:
        nm = a.value.id
        if any(isinstance(st, ast.Assign) and isinstance(st.targets[0], ast.Subscript) and norm(st.targets[0].value) == nm and ("excitation_energies" in norm(st.value) or "cis_energy" in norm(st.value))
               for st in ast.walk(f)) or nm.lower().startswith("eexc"):
            cand = a
    if cand is None:
        # `Etot += X` is not spelled in Energy.forward itself (the tail was moved into a helper): the interpreted tail tells which local is added as the excitation energy
        from ..assembly import interpreted_energy_tail
        try:
            _, _, X = interpreted_energy_tail(repo)      # (the verdict on the tail itself is reported by C14-R2)
        except AnalysisError:
            X = None
        if X is None or not any(isinstance(n_, ast.Name) and n_.id == X for n_ in ast.walk(f)):
            raise AnalysisError("Energy.forward: excitation-energy addend of Etot not found")
    else:
        X = cand.value.id
    mask_defs = [st for st in ast.walk(f) if isinstance(st, ast.Assign) and isinstance(st.targets[0], ast.Name) and isinstance(st.value, ast.Compare)
                 and isinstance(st.value.ops[0], ast.Gt) and norm(st.value.comparators[0]) == "0" and "active" in norm(st.value.left)]
    masks = {st.targets[0].id for st in mask_defs}
    if not masks:
        raise AnalysisError("Energy.forward: excited-state mask (active_states > 0) not found")
    n = 0
    zero_init = False
    for st in ast.walk(f):
        if not isinstance(st, ast.Assign):
            continue
        for t in st.targets:
            if isinstance(t, ast.Name) and t.id == X:
                n += 1
                if isinstance(st.value, ast.Call) and (call_name(st.value) or "").split(".")[-1] in ("zeros", "zeros_like"):
                    zero_init = True
                    continue
                ctrl = [(norm(a), p) for a, p, _ in controlling(bas, st, stop=f)]
                xl = ("self.xlesmd", True) in ctrl
                ctx.check(xl, rid, bas, st, "Energy.forward", st, f"whole-tensor assignment of {X} only in the XL-ESMD branch (all trajectories excited there)",
                          f"`{short(norm(st), 70)}` rebinds {X} for every molecule: in a batch that mixes ground and excited active states the ground-state molecules get an "
                          f"excitation energy added to Etot / Hf")
            elif isinstance(t, ast.Subscript) and norm(t.value) == X:
                n += 1
                sel = t.slice
                ok = isinstance(sel, ast.Name) and sel.id in masks
                ctx.check(ok, rid, bas, st, "Energy.forward", st, f"{X}[{norm(sel)}] = ...: only excited rows receive an excitation energy",
                          f"`{short(norm(st), 70)}` writes {X} with selector `{norm(sel)}` which is not the excited-state mask {sorted(masks)}")
    ctx.check(zero_init, rid, bas, f, "Energy.forward", f"{X} = zeros", f"{X} starts as zeros", f"{X} is not zero-initialised")
    if n < 3:
        raise AnalysisError(f"only {n} stores of {X} found")
