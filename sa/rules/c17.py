"""C17 -- surface hopping preserves norm, energy and per-trajectory isolation (algebraic/structural clauses)."""
from __future__ import annotations

import ast

from ..cfg import build_cfg
from ..exprs import to_sympy, torch_funcs
from ..guards import controlling
from ..loader import AnalysisError, attr_chain, call_name, callee_attr, calls_in, names_in, norm, short
from ..mdstep import MD, NAD, local_defs, mutated_phase_attr

LEVEL = "other"
TULLY = "scripts/tully_surface_hopping/TullyModels.py"
EXPLANATION = (
    "R1 the RK4 sub-step in _propagate_electronic is interpreted symbolically (rhs as an opaque function): stage points "
    "x+h/2 k1, x+h/2 k2, x+h k3 for both amplitude components, coupling interpolated at tau, tau+h/2, tau+h/2, tau+h, combination "
    "h/6 (k1+2k2+2k3+k4), sub-steps tile the nuclear step; R2 hop probabilities: clamp at zero precedes the row sum, "
    "normalisation is where(sum>1, g/sum, g) on the clamped values, one uniform draw per trajectory from the global generator "
    "compared with the cumulative sum; R3 energy-conserving rescale decided by expression algebra: with alpha as coded, "
    "KES*(alpha v.d + 1/2 alpha^2 sum d^2/m) + dE == 0, the root with sign(v.d) (smaller adjustment), update v += alpha d/m, "
    "dE = E_target - E_current at the call site, and no write to velocities/active state on any path returning False "
    "(frustrated hop is pure); R4 isolation: per-trajectory indexing discipline in the hop loop, row-0 broadcasts of the active "
    "state (who-may-read [0]) in seqm and the Tully scripts, and the batch-global sub-step count (known finding). "
    "Norm conservation to integrator order and the trivial-crossing permutation property are not decided numerically."
)
ASSUMPTIONS = ["rhs_amp is the interaction-picture right-hand side (norm-preserving for antisymmetric couplings)"]
TRUSTED = ["sympy", "symbolic straight-line interpreter in this module"]


def _sym_block(stmts, env, funcs, opaque):
    """Interpret straight-line assignments symbolically; opaque(name, args) builds tuples for unknown local functions."""
    import sympy as sp
    for st in stmts:
        if not isinstance(st, ast.Assign) or len(st.targets) != 1:
            continue
        t = st.targets[0]
        v = st.value
        if isinstance(v, ast.Call) and isinstance(v.func, ast.Name) and v.func.id in opaque:
            args = [to_sympy(a, env, funcs) for a in v.args]
            res = opaque[v.func.id](args)
            if isinstance(t, ast.Tuple):
                for e, r in zip(t.elts, res):
                    env[e.id] = r
            else:
                env[t.id] = res
            continue
        if isinstance(t, ast.Name):
            try:
                env[t.id] = to_sympy(v, env, funcs)
            except AnalysisError:
                env.pop(t.id, None)
    return env


def _r2_textual(ctx, nad):
    """shape-based form of R2 (consulted only when _attempt_hop cannot be interpreted)"""
    ah = nad.func("SurfaceHoppingDynamics._attempt_hop")
    # SSA over straight-line top-level assignments
    versions = {}
    chain = []  # (name, version, value)
    for st in ah.body:
        if isinstance(st, ast.Assign) and len(st.targets) == 1 and isinstance(st.targets[0], ast.Name):
            nm = st.targets[0].id
            versions[nm] = versions.get(nm, -1) + 1
            chain.append((nm, versions[nm], st))
    def is_clamp0(v):
        if isinstance(v, ast.Call):
            cn = call_name(v) or ""
            ca = callee_attr(v)
            kws = {k.arg: norm(k.value) for k in v.keywords}
            if ca in ("clamp", "clamp_min") and (kws.get("min") in ("0.0", "0") or (ca == "clamp_min" and v.args and norm(v.args[-1]) in ("0", "0.0"))) \
                    and "max" not in kws:
                return True
            if ca == "relu":
                return True
        return False
    g_defs = [(ver, st) for nm, ver, st in chain if nm == "g_rows"]
    sum_defs = [st for nm, ver, st in chain if nm == "g_sum"]
    if len(g_defs) < 3 or len(sum_defs) != 1:
        raise AnalysisError("_attempt_hop: g_rows / g_sum chain not recognised")
    clamp_idx = [i for i, (ver, st) in enumerate(g_defs) if is_clamp0(st.value) and "g_rows" in names_in(st.value)]
    where_idx = [i for i, (ver, st) in enumerate(g_defs) if isinstance(st.value, ast.Call) and call_name(st.value) == "torch.where"]
    pos = {id(st): i for i, (_, _, st) in enumerate(chain)}
    ok_order = bool(clamp_idx) and bool(where_idx) and pos[id(g_defs[clamp_idx[0]][1])] < pos[id(sum_defs[0])] < pos[id(g_defs[where_idx[0]][1])]
    ctx.check(ok_order, "R2", nad, ah, "SurfaceHoppingDynamics._attempt_hop", "clamp -> sum -> where",
              "negative fewest-switches rates are clamped to zero before the row sum and the normalisation",
              "hop probabilities: clamp(min=0) does not precede the row sum / normalisation (probabilities can leave [0,1])")
    sv = sum_defs[0].value
    ctx.check(isinstance(sv, ast.Call) and callee_attr(sv) == "sum" and norm(sv.func.value) == "g_rows" and
              {k.arg: norm(k.value) for k in sv.keywords}.get("dim") == "1", "R2", nad, sum_defs[0], "SurfaceHoppingDynamics._attempt_hop", sum_defs[0],
              "row sum over target states of the clamped rates", f"g_sum = `{norm(sv)}`")
    if where_idx:
        w = g_defs[where_idx[0]][1].value
        a = w.args
        cond_ok = len(a) == 3 and norm(a[0]).replace(" ", "") in ("g_sum>1.0", "g_sum>1")
        t_ok = len(a) == 3 and isinstance(a[1], ast.BinOp) and isinstance(a[1].op, ast.Div) and norm(a[1].left) == "g_rows" and "g_sum" in names_in(a[1].right)
        f_ok = len(a) == 3 and norm(a[2]) == "g_rows"
        ctx.check(cond_ok and t_ok and f_ok, "R2", nad, w, "SurfaceHoppingDynamics._attempt_hop", w,
                  "rows are renormalised only when their sum exceeds one: where(g_sum > 1, g/g_sum, g)",
                  f"normalisation is `{short(w, 90)}`: row sums can exceed one or small probabilities are inflated")
    draws = [c for c in calls_in(ah) if (call_name(c) or "") in ("torch.rand", "torch.rand_like")]
    ctx.check(len(draws) == 1 and norm(draws[0].args[0]) == "nmol" and not any(k.arg == "generator" for k in draws[0].keywords), "R2", nad, ah,
              "SurfaceHoppingDynamics._attempt_hop", draws[0] if draws else ah.name, "one uniform draw per trajectory from the global generator",
              f"{len(draws)} uniform draws / wrong shape in _attempt_hop")
    d = local_defs(ah)
    cs = d.get("cumsum", [])
    cmpd = d.get("cmp", [])
    ok = len(cs) == 1 and norm(cs[0]).replace(" ", "") == "torch.cumsum(g_rows,dim=1)" and len(cmpd) == 1 and \
        norm(cmpd[0]).replace(" ", "") in ("cumsum>=r.unsqueeze(1)", "cumsum>r.unsqueeze(1)")
    ctx.check(ok, "R2", nad, ah, "SurfaceHoppingDynamics._attempt_hop", "cumsum >= r", "target = first state whose cumulative probability reaches the draw",
              f"selection is cumsum={[norm(c) for c in cs]}, cmp={[norm(c) for c in cmpd]}")
    gr0 = g_defs[0][1].value
    ok = isinstance(gr0, ast.BinOp) and isinstance(gr0.op, ast.Div) and norm(gr0.left).replace(" ", "") == "self._hop_integral[arange,i_state]" and "denom" in names_in(gr0.right)
    den = d.get("denom", [])
    ok = ok and len(den) == 1 and "pop[arange, i_state]" in norm(den[0])
    ctx.check(ok, "R2", nad, g_defs[0][1], "SurfaceHoppingDynamics._attempt_hop", g_defs[0][1], "rates are the active row of the hop integral divided by the active population",
              f"g_rows = `{norm(gr0)}`, denom = {[norm(x) for x in den]}")



def _r3_rescale_symbolic(ctx, nad):
    """symbolic reading of the rescale routine (sa.tensorsym); consulted only when the routine cannot be interpreted at exact points"""
    rv = nad.func("SurfaceHoppingDynamics._rescale_velocity_along_nac")
    # name-independent decision: the function body is re-read as equations over small symbolic arrays (2 atoms x 3 components) and
    # the stored velocities are checked against the physics: (i) v' - v = alpha * d / m with ONE scalar alpha, (ii) the kinetic
    # energy changes by exactly -dE, (iii) alpha is the root of smaller magnitude, (iv) the frustrated exit tests that root's radicand.
    import random
    import numpy as np
    from ..tensorsym import TensorSym
    params = [a.arg for a in rv.args.args]
    if len(params) < 7:
        raise AnalysisError("_rescale_velocity_along_nac: signature changed")
    p_mol, p_dE, p_idx = params[4], params[5], params[6]
    A, C = 2, 3
    V = np.array([[sp.Symbol(f"v{i}{j}", real=True) for j in range(C)] for i in range(A)], dtype=object)
    D = np.array([[sp.Symbol(f"d{i}{j}", real=True) for j in range(C)] for i in range(A)], dtype=object)
    MI = np.array([[sp.Symbol(f"w{i}", positive=True)] for i in range(A)], dtype=object)
    dEs, KES = sp.Symbol("dE", real=True), sp.Symbol("KES", positive=True)

    def hook(n, ts):
        if isinstance(n.slice, ast.Name) and n.slice.id == p_idx:
            base = norm(n.value)
            if base == f"{p_mol}.velocities":
                return V
            if base == f"{p_mol}.mass_inverse":
                return MI
            if isinstance(n.value, ast.Name):
                return D          # the coupling vector of this trajectory (whatever the dictionary local is called)
        return None
    stored = []

    def on_store(t, st, ts):
        if isinstance(t, ast.Subscript) and norm(t.value) == f"{p_mol}.velocities":
            stored.append((st, norm(t.slice), ts.ev(st.value)))
    results = []
    for body_branch in (True, False):
        ts = TensorSym({p_dE: dEs, "CONSTANTS.KINETIC_ENERGY_SCALE": KES}, hook, ifexp_body=body_branch)
        del stored[:]
        try:
            ts.run(rv.body, on_store)
        except AnalysisError as e:
            raise AnalysisError(f"_rescale_velocity_along_nac not interpretable: {e}")
        if len(stored) != 1:
            results.append((None, f"{len(stored)} velocity stores"))
            continue
        st_, sl_, Vn = stored[0]
        results.append((ts, (st_, sl_, Vn)))
    rng = random.Random(7)

    def sample(neg_dE):
        vals = {}
        for x in list(V.flat) + list(D.flat):
            vals[x] = sp.Rational(rng.randint(-40, 40), 17) or sp.Rational(3, 17)
        for x in MI.flat:
            vals[x] = sp.Rational(rng.randint(1, 30), 13)
        vals[KES] = sp.Rational(rng.randint(1, 30), 7)
        vals[dEs] = sp.Rational(rng.randint(1, 9), 11) * (-1 if neg_dE else sp.Rational(1, 400))
        return vals
    ok_dir = ok_energy = ok_root = ok_target = True
    detail = ""
    for ts, res in results:
        if ts is None:
            ok_dir = ok_energy = ok_root = ok_target = False
            detail = res
            continue
        st_, sl_, Vn = res
        ok_target = ok_target and sl_ == p_idx
        for neg in (True, True, False):
            vals = sample(neg)
            f = lambda e: sp.N(sp.sympify(e).subs(vals), 50)
            dV = (Vn - V)
            alphas = [f(dV[i, j]) / (f(D[i, j]) * f(MI[i, 0])) for i in range(A) for j in range(C)]
            if any(abs(x - alphas[0]) > sp.Float("1e-35") for x in alphas):
                ok_dir, detail = False, f"v' - v is not a single multiple of d/m (ratios {[sp.N(x, 6) for x in alphas[:3]]})"
                continue
            al = alphas[0]
            dK = sum(f(Vn[i, j]) ** 2 - f(V[i, j]) ** 2 for i in range(A) for j in range(C) for _ in [0] if True) * 0
            dK = sum((f(Vn[i, j]) ** 2 - f(V[i, j]) ** 2) / f(MI[i, 0]) for i in range(A) for j in range(C)) / 2
            resid = f(KES) * dK + f(dEs)
            if abs(resid) > sp.Float("1e-30"):
                ok_energy, detail = False, f"KES*dEkin + dE = {sp.N(resid, 8)} at a random point (alpha = {sp.N(al, 8)})"
            vd = sum(f(V[i, j]) * f(D[i, j]) for i in range(A) for j in range(C))
            s2 = sum(f(MI[i, 0]) * f(D[i, j]) ** 2 for i in range(A) for j in range(C))
            radv = vd ** 2 - 2 * f(dEs) / f(KES) * s2
            if radv > 0:
                other = [(-vd + sgn * sp.sqrt(radv)) / s2 for sgn in (1, -1)]
                small = min(other, key=lambda x: abs(x))
                if abs(al - small) > sp.Float("1e-30"):
                    ok_root, detail = False, f"alpha = {sp.N(al, 8)} but the root of smaller magnitude is {sp.N(small, 8)}"
    ctx.check(ok_dir and ok_target, "R3", nad, rv, "SurfaceHoppingDynamics._rescale_velocity_along_nac", "v' - v = alpha d/m",
              "v[mol] <- v[mol] + alpha * d / m with one scalar alpha (only along the mass-weighted coupling vector, only this trajectory)",
              f"velocity update on a hop is not v += alpha*d*mass_inverse for the hopping trajectory only: {detail}")
    ctx.check(ok_energy, "R3", nad, rv, "SurfaceHoppingDynamics._rescale_velocity_along_nac", "alpha",
              "KES*(Ekin' - Ekin) + dE == 0 for the stored velocities: total energy conserved exactly by the adjustment (50-digit evaluation at random rational points, both signs of dE)",
              f"velocity adjustment does not conserve energy: {detail}")
    ctx.check(ok_root, "R3", nad, rv, "SurfaceHoppingDynamics._rescale_velocity_along_nac", "alpha root",
              "the root of smaller magnitude is taken (carries sign(v.d))", f"{detail}")
    # the radicand tested by the frustrated exit
    ts0 = results[0][0]
    rad_names = []
    if ts0 is not None:
        vd_s = sum(V[i, j] * D[i, j] for i in range(A) for j in range(C))
        s2_s = sum(MI[i, 0] * D[i, j] ** 2 for i in range(A) for j in range(C))
        rad_s = vd_s ** 2 - 2 * dEs / KES * s2_s
        for nm, val in ts0.env.items():
            try:
                if not isinstance(val, np.ndarray) and sp.simplify(sp.expand(sp.sympify(val) - rad_s)) == 0:
                    rad_names.append(nm)
            except Exception:  # noqa
                pass
    g = build_cfg(rv)
    muts = []
    for n in g.nodes:
        if n.kind == "stmt":
            for attr, how, node in mutated_phase_attr(n.stmt):
                muts.append((n, attr, how, node))
            for t in ast.walk(n.stmt):
                if isinstance(t, (ast.Assign, ast.AugAssign)):
                    tg = t.targets if isinstance(t, ast.Assign) else [t.target]
                    for x in tg:
                        if "_active_states" in norm(x):
                            muts.append((n, "_active_states", "assign", t))
    false_rets = [n for n in g.nodes if n.kind == "stmt" and isinstance(n.stmt, ast.Return) and isinstance(n.stmt.value, ast.Constant) and n.stmt.value.value is False]
    true_rets = [n for n in g.nodes if n.kind == "stmt" and isinstance(n.stmt, ast.Return) and isinstance(n.stmt.value, ast.Constant) and n.stmt.value.value is True]
    ctx.check(len(false_rets) >= 2 and len(true_rets) == 1, "R3", nad, rv, "SurfaceHoppingDynamics._rescale_velocity_along_nac", "returns",
              "frustrated exits (no coupling direction, negative radicand) return False; success returns True", "return structure of the rescale changed")
    for fr in false_rets:
        back = g.reachable(fr.id, forward=False)
        dirty = [m for m in muts if m[0].id in back]
        ctx.check(not dirty, "R3", nad, fr.stmt, "SurfaceHoppingDynamics._rescale_velocity_along_nac", fr.stmt,
                  "no write to velocities / active state on a path that reports a frustrated hop",
                  f"a frustrated hop (return False) can follow `{short(dirty[0][3], 60) if dirty else ''}`: state is modified although the hop is rejected")
    for fr in false_rets:
        ctrl = controlling(nad, fr.stmt)
        t = [(norm(a).replace(" ", ""), p) for a, p, _ in ctrl]
        if any(any(a.startswith(rn + "<") for rn in rad_names) for a, _ in t) or (not rad_names and fr is false_rets[-1]):
            ctx.check(any((f"{rn}<=0", True) in t or (f"{rn}<0", True) in t for rn in rad_names), "R3", nad, fr.stmt, "SurfaceHoppingDynamics._rescale_velocity_along_nac", fr.stmt,
                      "hop is frustrated exactly when the radicand is not positive", f"frustration test is {t}")


def _hop_loop_shape_based(ctx, nad):
    """shape-based reading of the hop loop (call-site arguments, success-only state switch, id / position indexing); consulted only when the routine cannot be interpreted"""
    au = nad.func("SurfaceHoppingDynamics._after_electronic_update")
    dd2 = local_defs(au)
    de_def = dd2.get("dE", [])
    ok = len(de_def) == 1 and norm(de_def[0]).replace(" ", "") == "float((excitation_energies[mol,target]-excitation_energies[mol,exc_idx]).item())"
    ctx.check(ok, "R3", nad, au, "SurfaceHoppingDynamics._after_electronic_update", "dE", "dE = E[target] - E[current] of the same trajectory",
              f"dE passed to the rescale is {[norm(x) for x in de_def]}")
    calls = [c for c in calls_in(au) if callee_attr(c) == "_rescale_velocity_along_nac"]
    ok = len(calls) == 1 and [norm(a) for a in calls[0].args] == ["nac_matrix", "exc_idx", "target", "molecule", "dE"] and \
        {k.arg: norm(k.value) for k in calls[0].keywords} == {"mol_index": "mol"}
    ctx.check(ok, "R3", nad, calls[0] if calls else au, "SurfaceHoppingDynamics._after_electronic_update", calls[0] if calls else au.name,
              "rescale receives (from, to, dE) of the hopping trajectory", "arguments of the rescale call changed")
    for st in ast.walk(au):
        if isinstance(st, ast.Assign) and norm(st.targets[0]) == "self._active_states[mol]":
            ctrl = controlling(nad, st)
            ctx.check(any(p and norm(a) == "success" for a, p, _ in ctrl) and norm(st.value) == "target", "R3", nad, st, "SurfaceHoppingDynamics._after_electronic_update", st,
                      "active state switches to the target only after a successful rescale", "active state is changed without a successful rescale")
    # the rejected branch writes neither state nor velocities
    for iff in ast.walk(au):
        if isinstance(iff, ast.If) and norm(iff.test) == "success":
            bad = [st for st in iff.orelse for x in ast.walk(st) if isinstance(x, (ast.Assign, ast.AugAssign)) and
                   any(k in norm(x.targets[0] if isinstance(x, ast.Assign) else x.target) for k in ("_active_states", "velocities", "post_hop_holdoff", "accepted_mask"))]
            ctx.check(not bad, "R3", nad, iff, "SurfaceHoppingDynamics._after_electronic_update", "else: (frustrated)",
                      "frustrated branch leaves active state, velocities and hold-off untouched", f"frustrated branch writes `{short(bad[0], 50) if bad else ''}`")

    # (i) hop loop indexing discipline
    hl = [l for l in ast.walk(au) if isinstance(l, ast.For) and "hop_idx_list" in norm(l.iter)]
    if len(hl) != 1 or not (isinstance(hl[0].target, ast.Tuple) and len(hl[0].target.elts) == 2):
        raise AnalysisError("_after_electronic_update: hop loop not recognised")
    posv, molv = hl[0].target.elts[0].id, hl[0].target.elts[1].id
    bad = []
    n_idx = 0
    for sub in ast.walk(hl[0]):
        if isinstance(sub, ast.Subscript):
            first = sub.slice.elts[0] if isinstance(sub.slice, ast.Tuple) and sub.slice.elts else sub.slice
            if isinstance(first, ast.Name) and first.id in (posv, molv):
                n_idx += 1
                base = norm(sub.value)
                sel = base in ("hop_targets_sel",)
                if (first.id == posv) != sel:
                    bad.append(sub)
    ctx.check(not bad and n_idx >= 6, "R4", nad, bad[0] if bad else hl[0], "SurfaceHoppingDynamics._after_electronic_update", bad[0] if bad else hl[0].target,
              "in the hop loop whole-batch tensors are indexed by the trajectory id and the selected-target list by its position",
              f"`{norm(bad[0]) if bad else ''}` mixes up trajectory id and position in the hop list: one trajectory's hop uses another's data")


def run(ctx):
    import sympy as sp
    repo = ctx.repo
    nad = repo.mod(NAD)
    ctx.rule("R1", "RK4 tableau of the electronic sub-step (symbolic interpretation)")
    ctx.rule("R2", "hop probabilities: clamp, normalise, single draw, cumulative comparison")
    ctx.rule("R3", "energy-conserving velocity adjustment (expression algebra) and frustrated-hop purity")
    ctx.rule("R4", "per-trajectory isolation: indexing discipline, row-0 broadcasts, batch-global scalars")
    ctx.rule("R5", "scratch-buffer hygiene: reusable per-object buffers are re-initialised on every fetch (no state leaks between crossings/trajectories)")
    ctx.rule("R6", "the adaptive sub-step controller sees the coupling at both ends of the nuclear step")
    ctx.rule("R7", "Tully model surfaces: adiabatic gradients are the derivatives of the adiabatic energies, the coupling is d(theta)/dx, diabatic derivatives match their functions (expression algebra)")
    ctx.rule("R8", "per-trajectory isolation of sizes and active states: no per-molecule quantity is taken from row 0 for the whole batch without a uniformity fact (representative-row rule)")
    from .c05 import check_rep_rows
    check_rep_rows(ctx, "R8")
    _r7_tully_models(ctx, repo)
    _r6_controller(ctx, nad)
    _r5(ctx, nad)

    # ------------------------------------------------------------------ R1
    pe = nad.func("NonadiabaticDynamicsBase._propagate_electronic")
    loops = [n for n in ast.walk(pe) if isinstance(n, ast.For) and any(callee_attr(c) == "rhs_amp" for c in calls_in(n))]
    if len(loops) != 1:
        raise AnalysisError("_propagate_electronic: RK4 loop not found")
    loop = loops[0]
    ctx.check(norm(loop.iter) == "range(nsub)", "R1", nad, loop, "_propagate_electronic", loop.iter, "sub-step loop runs nsub times", f"RK4 loop iterates {norm(loop.iter)}")
    svar = loop.target.id
    h, hbar, N = sp.symbols("h hbar N", positive=True)
    S = sp.Symbol("s", nonnegative=True)
    x, y, th = sp.symbols("x y th", real=True)
    e0, de, D0, dD = sp.symbols("e0 de D0 dD", real=True)
    FX, FY = sp.Function("FX"), sp.Function("FY")
    funcs = torch_funcs()
    pre = {"dt_total": h * N, "nsub": N, "HBAR_EV_FS": hbar, "e0": e0, "de": de, "nd_old": D0, "dnd": dD, "x": x, "y": y, "th": th, svar: S}
    # pre-loop scalar definitions (inv_nsub, dt_sub, ...)
    pre_stmts = []
    for st in pe.body:
        if st is loop:
            break
        if isinstance(st, ast.Assign) and len(st.targets) == 1 and isinstance(st.targets[0], ast.Name) and st.targets[0].id in (
                "inv_nsub", "dt_sub", "half_dt_sub", "dt_over_hbar", "half_dt_over_hbar", "one_sixth_dt"):
            pre_stmts.append(st)
    funcs["float"] = lambda a, n: a[0]
    env = _sym_block(pre_stmts, dict(pre), funcs, {})
    need = ["inv_nsub", "dt_sub"]
    if any(k not in env for k in need):
        raise AnalysisError("_propagate_electronic: sub-step constants not found")
    ctx.check(sp.simplify(env["dt_sub"] - h) == 0 and sp.simplify(env["inv_nsub"] - 1 / N) == 0, "R1", nad, pe, "_propagate_electronic", "dt_sub",
              "sub-step length = dt/nsub (sub-steps tile the nuclear step)", f"dt_sub = {env.get('dt_sub')}, inv_nsub = {env.get('inv_nsub')}")
    opaque = {"rhs_amp": lambda a: (FX(*a), FY(*a))}
    env = _sym_block(loop.body, env, funcs, opaque)
    k = {}
    try:
        tau = S / N
        Dt = lambda c: D0 + (tau + c / N) * dD
        th_s = {i: sp.Symbol(f"theta_stage{i}") for i in (2, 3, 4)}
        # recover the stage thetas as coded (not an obligation, see explanation)
        code_th = {2: env.get("th2"), 3: env.get("th3"), 4: env.get("th4")}
        k1x, k1y = FX(x, y, th, Dt(0)), FY(x, y, th, Dt(0))
        k2x = FX(x + h / 2 * k1x, y + h / 2 * k1y, code_th[2], Dt(sp.Rational(1, 2)))
        k2y = FY(x + h / 2 * k1x, y + h / 2 * k1y, code_th[2], Dt(sp.Rational(1, 2)))
        k3x = FX(x + h / 2 * k2x, y + h / 2 * k2y, code_th[3], Dt(sp.Rational(1, 2)))
        k3y = FY(x + h / 2 * k2x, y + h / 2 * k2y, code_th[3], Dt(sp.Rational(1, 2)))
        k4x = FX(x + h * k3x, y + h * k3y, code_th[4], Dt(1))
        k4y = FY(x + h * k3x, y + h * k3y, code_th[4], Dt(1))
        want = {"dx1": k1x, "dy1": k1y, "dx2": k2x, "dy2": k2y, "dx3": k3x, "dy3": k3y, "dx4": k4x, "dy4": k4y}
        for nm, w in want.items():
            got = env.get(nm)
            ok = got is not None and sp.simplify(got - w) == 0
            ctx.check(ok, "R1", nad, loop, "_propagate_electronic", nm,
                      f"stage derivative {nm} is evaluated at the classical RK4 stage point / coupling time",
                      f"RK4 stage {nm} is evaluated at the wrong point: got {got}")
        newx, newy = env.get("x"), env.get("y")
        wx = x + h / 6 * (k1x + 2 * k2x + 2 * k3x + k4x)
        wy = y + h / 6 * (k1y + 2 * k2y + 2 * k3y + k4y)
        ctx.check(newx is not None and sp.simplify(newx - wx) == 0, "R1", nad, loop, "_propagate_electronic", "x update",
                  "x <- x + h/6 (k1 + 2k2 + 2k3 + k4)", f"RK4 combination for x is {newx}")
        ctx.check(newy is not None and sp.simplify(newy - wy) == 0, "R1", nad, loop, "_propagate_electronic", "y update",
                  "y <- y + h/6 (k1 + 2k2 + 2k3 + k4)", f"RK4 combination for y is {newy}")
        newth = env.get("th")
        e_mid = e0 + (tau + sp.Rational(1, 2) / N) * de
        ctx.check(newth is not None and sp.simplify(newth - (th - e_mid * h / hbar)) == 0, "R1", nad, loop, "_propagate_electronic", "theta update",
                  "phase advances by -E(midpoint) h / hbar (exact for linearly interpolated energies)", f"phase update is {newth}")
        ctx.observe("RK4 stage phases as coded: th2 = %s, th3 = %s, th4 = %s (model choice; not an obligation)" % (code_th[2], code_th[3], code_th[4]))
    except AnalysisError as e:
        raise AnalysisError(f"_propagate_electronic: cannot interpret RK4 body: {e}")
    # amplitudes written back after the loop
    stores = [st for st in pe.body if isinstance(st, ast.Assign) and isinstance(st.targets[0], ast.Subscript) and norm(st.targets[0].value) == "amp"]
    ok = [norm(s.targets[0].slice) + "=" + norm(s.value) for s in stores]
    ctx.check(sorted(ok) == sorted(["(..., 0)=x", "(..., 1)=y", "(..., 2)=th"]), "R1", nad, pe, "_propagate_electronic", "amp[...] stores",
              "propagated x, y, theta are stored back into the amplitude buffer", f"amplitude write-back is {ok}")

    # ------------------------------------------------------------------ R2
    ah = nad.func("SurfaceHoppingDynamics._attempt_hop")
    # decided by value: the routine is interpreted (sa.npsym) on exact-rational batches designed to exercise every decision of the fewest-switches selection on both sides and
    # compared with the documented rule; the shape-based form is consulted only when the routine cannot be interpreted
    from ..assembly import interpreted_hop_selection
    try:
        ok, msg, facts = interpreted_hop_selection(ctx.repo)
        interpreted = True
    except AnalysisError as e:
        ctx.note(f"_attempt_hop could not be interpreted ({str(e)[:100]}); the shape-based form of R2 is used")
        interpreted = False
    if interpreted:
        ctx.check(ok, "R2", nad, ah, "SurfaceHoppingDynamics._attempt_hop", "fewest-switches selection",
                  "hop targets equal the fewest-switches rule on %d interpreted requests (%d hops, %d non-hops): rates = active row of the hop integral / floored active population, "
                  "clamped at zero, renormalised only when the row sum exceeds one, one uniform draw per trajectory from the global generator, target = first state whose "
                  "cumulative probability reaches the draw" % (facts["requests"], facts["hops"], facts["no_hops"]),
                  msg)
    else:
        _r2_textual(ctx, nad)

    # ------------------------------------------------------------------ R3
    rv = nad.func("SurfaceHoppingDynamics._rescale_velocity_along_nac")
    # decided by value: the routine is interpreted (sa.npsym) at exact rational points for downward, allowed upward and frustrated hops (both state orders, a batch of two
    # trajectories with a padding atom); the symbolic reading is consulted only when it cannot be interpreted
    from ..assembly import interpreted_hop_rescale
    try:
        ok3, msg3, facts3 = interpreted_hop_rescale(ctx.repo, n_points=6)
        interp3 = True
    except AnalysisError as e:
        ctx.note(f"_rescale_velocity_along_nac could not be interpreted ({str(e)[:100]}); symbolic reading used")
        interp3 = False
    if interp3:
        ctx.check(ok3, "R3", nad, rv, "SurfaceHoppingDynamics._rescale_velocity_along_nac", "velocity adjustment",
                  "accepted hops (%d requests): v' - v = alpha d/m with one alpha on the hopping trajectory only, KES dE_kin + dE = 0 exactly, smaller root; frustrated hops "
                  "(%d requests): returns False, velocities untouched; padding atoms never move" % (facts3["accepted"], facts3["frustrated"]), msg3)
        for _ in range(5):
            ctx.ok("R3", f"{nad.rel}:{rv.lineno} SurfaceHoppingDynamics._rescale_velocity_along_nac", "decided with the interpreted requests", nontrivial=False)
    else:
        _r3_rescale_symbolic(ctx, nad)
    # the bookkeeping of the hop loop is decided by value (sa.npsym: four trajectories, preset proposals / verdicts); the shape-based reading is the fallback
    au = nad.func("SurfaceHoppingDynamics._after_electronic_update")
    from ..assembly import interpreted_hop_bookkeeping
    try:
        okb, msgb, factsb = interpreted_hop_bookkeeping(ctx.repo)
        interpb = True
    except AnalysisError as e:
        ctx.note(f"_after_electronic_update could not be interpreted ({str(e)[:100]}); shape-based reading of the hop loop used")
        interpb = False
    if interpb:
        for rid_ in ("R3", "R4"):
            ctx.check(okb, rid_, nad, au, "SurfaceHoppingDynamics._after_electronic_update", "hop loop",
                      "hop loop (%d interpreted scenarios): each hopping trajectory is adjusted with its own (from, to, dE, index); only an accepted hop switches the surface and "
                      "starts the hold-off; frustrated and non-hopping trajectories are untouched; reported potential follows the active surface" % factsb["scenarios"], msgb)
        for _ in range(4):
            ctx.ok("R3", f"{nad.rel}:{au.lineno} SurfaceHoppingDynamics._after_electronic_update", "decided with the interpreted scenarios", nontrivial=False)
    else:
        _hop_loop_shape_based(ctx, nad)
    # ------------------------------------------------------------------ R4
    # (ii) row-0 broadcasts of per-trajectory state
    n_b = 0
    for rel in (NAD, TULLY):
        if not repo.has(rel):
            continue
        m = repo.mod(rel)
        for sub in ast.walk(m.tree):
            if isinstance(sub, ast.Subscript) and isinstance(sub.slice, ast.Constant) and sub.slice.value == 0 \
                    and norm(sub.value).split(".")[-1] in ("_active_states", "active_states", "act", "active_idx", "post_hop_holdoff", "prev_state", "hop_targets_t"):
                n_b += 1
                q = m.qualname_of(sub)
                stmt = m.enclosing_stmt(sub)
                # allowed: value flows only into the scalar compatibility attribute `_active_state`
                compat = isinstance(stmt, ast.Assign) and norm(stmt.targets[0]) == "self._active_state"
                ctx.check(compat, "R4", m, sub, q, stmt,
                          "row-0 read of the active state feeds only the scalar compatibility attribute",
                          f"`{short(stmt, 80)}` uses trajectory 0's active state for the whole batch: other trajectories are propagated on the wrong surface")
    # forces gathered per row in every Tully engine
    if repo.has(TULLY):
        m = repo.mod(TULLY)
        for q, f in m.functions.items():
            for st in ast.walk(f):
                if isinstance(st, ast.Assign) and norm(st.targets[0]) == "molecule.force" and "all_forces" in norm(st.value):
                    n_b += 1
                    v = st.value
                    first = v.slice.elts[0] if isinstance(v, ast.Subscript) and isinstance(v.slice, ast.Tuple) else None
                    per_row = first is not None and not isinstance(first, ast.Slice)
                    ctx.check(per_row, "R4", m, st, q, st, "active-surface force is gathered per trajectory", f"`{short(st, 70)}` takes one surface for all trajectories")
    if n_b < 3:
        raise AnalysisError("row-0 / per-row force sites not found")
    # (iii) batch-global scalars feeding numerics in the propagator
    for c in calls_in(pe):
        if callee_attr(c) == "item":
            stmt = nad.enclosing_stmt(c)
            tgt = norm(stmt.targets[0]) if isinstance(stmt, ast.Assign) else "?"
            ctx.check(False, "R4", nad, c, "NonadiabaticDynamicsBase._propagate_electronic", stmt,
                      "", f"`{short(stmt, 70)}`: a batch-global reduction is converted to a Python scalar that sets `{tgt}` (sub-step count) for every "
                      f"trajectory: a coupling spike in one trajectory changes the integration of the others") if "nsub" in tgt else None


def _r5(ctx, nad):
    gt = nad.func("NonadiabaticDynamicsBase._get_tensor")
    g = build_cfg(gt)
    rets = [n for n in g.nodes if n.kind == "stmt" and isinstance(n.stmt, ast.Return)]
    fills = {n.id for n in g.nodes if n.kind == "stmt" and any(callee_attr(c) in ("zero_", "fill_", "copy_") or (call_name(c) or "") in ("torch.full", "torch.zeros", "torch.ones", "torch.full_like", "torch.zeros_like")
                                                               for c in calls_in(n.stmt))}
    tests = [n for n in g.nodes if n.kind == "if" and norm(n.expr).replace(" ", "") == "fill_valueisnotNone"]
    if not rets:
        raise AnalysisError("_get_tensor: return not found")
    if tests:
        t = tests[0]
        true_succ = [b for b, lab in g.succ[t.id] if lab == "true"]
        # with a fill value requested, every path from the test to the return passes a fill; and the test is on every path to return
        ok = all(r.id not in g.reachable(true_succ, avoid=fills, include_src=True) for r in rets) and all(g.must_pass(g.entry, r.id, {t.id}) for r in rets)
    else:
        # no dedicated test: every path to the return must pass a fill
        ok = all(g.must_pass(g.entry, r.id, fills) for r in rets)
    ctx.check(ok, "R5", nad, gt, "NonadiabaticDynamicsBase._get_tensor", gt.name,
              "a cached scratch tensor requested with a fill value is refilled on every fetch, including cache hits",
              "_get_tensor can return a cached buffer without refilling it: swap/zero masks keep entries of earlier trivial crossings "
              "(relabelling stops being a permutation; one trajectory's crossing re-swaps another's amplitudes)")
    # call sites that rely on it pass a fill value
    n = 0
    for c in calls_in(nad.tree):
        if callee_attr(c) == "_get_tensor":
            n += 1
            kws = {k.arg for k in c.keywords}
            ctx.check("fill_value" in kws or len(c.args) >= 6, "R5", nad, c, nad.qualname_of(c), c, "scratch buffer is requested with an explicit fill value",
                      f"`{short(c, 60)}` takes a reusable buffer without a fill value: contents of the previous use leak in")
    cc = nad.func("NonadiabaticDynamicsBase._copy_cache_entry")
    g = build_cfg(cc)
    cp = {n.id for n in g.nodes if n.kind == "stmt" and any(callee_attr(c) == "copy_" and norm(c.args[0]) == "src" for c in calls_in(n.stmt))}
    st = [n for n in g.nodes if n.kind == "stmt" and isinstance(n.stmt, ast.Assign) and norm(n.stmt.targets[0]) == "cache[key]"]
    ok = bool(cp) and bool(st) and all(g.must_pass(g.entry, x.id, cp) for x in st) and g.must_pass(g.entry, g.exit_return, {x.id for x in st})
    ctx.check(ok, "R5", nad, cc, "NonadiabaticDynamicsBase._copy_cache_entry", cc.name, "previous-step cache entries are copies of the current data on every call",
              "_copy_cache_entry can keep an old buffer without copying the new data")
    if n < 3:
        raise AnalysisError("_get_tensor call sites not found")


def _r6_controller(ctx, nad):
    """The RK4 right-hand side interpolates the coupling between its value at the start and at the end of the nuclear step.  The number of
    sub-steps (adaptive arm, substeps=None) must be computed from both end values: a controller that looks at one end only takes the base
    number of sub-steps through a coupling spike that has decayed by the end of the step (norm loss of order 1e-2 instead of 1e-5)."""
    f = nad.func("NonadiabaticDynamicsBase._propagate_electronic")
    defs = {}
    for st in ast.walk(f):
        if isinstance(st, ast.Assign) and len(st.targets) == 1 and isinstance(st.targets[0], ast.Name):
            defs.setdefault(st.targets[0].id, []).append(st)
    # interpolation end points: X_new - X_old definitions whose result feeds the RK loop (difference of two cache reads)
    ends = []
    for nm, sts in defs.items():
        for st in sts:
            v = st.value
            if isinstance(v, ast.BinOp) and isinstance(v.op, ast.Sub) and isinstance(v.left, ast.Name) and isinstance(v.right, ast.Name):
                l, r = v.left.id, v.right.id
                def from_cache(n_):
                    return any(isinstance(s2.value, ast.Call) and callee_attr(s2.value) == "get" and "nac_dot" in norm(s2.value) for s2 in defs.get(n_, []))
                if from_cache(l) and from_cache(r):
                    ends.append((nm, l, r, st))
    if not ends:
        raise AnalysisError("_propagate_electronic: coupling end points (new - old) not found")
    # adaptive arm: the `if substeps is None:` body
    arms = [st for st in ast.walk(f) if isinstance(st, ast.If) and norm(st.test).replace(" ", "") in ("substepsisNone", "substepsisnotNone")]
    if not arms:
        raise AnalysisError("_propagate_electronic: adaptive arm (substeps is None) not found")
    arm = arms[0]
    # the adaptive arm is the one taken when no sub-step count is requested, whichever way the test is written
    arm_body = arm.body if norm(arm.test).replace(" ", "") == "substepsisNone" else arm.orelse
    arm_defs = {}
    for st in arm_body:
        for x in ast.walk(st):
            if isinstance(x, ast.Assign) and len(x.targets) == 1 and isinstance(x.targets[0], ast.Name):
                arm_defs.setdefault(x.targets[0].id, []).append(x.value)
    nsub_names = [n_ for n_ in arm_defs if n_.startswith("nsub")]
    if not nsub_names:
        raise AnalysisError("_propagate_electronic: adaptive sub-step count not found")

    def closure(name, seen):
        for v in arm_defs.get(name, []) or [s_.value for s_ in defs.get(name, [])]:
            for x in ast.walk(v):
                if isinstance(x, ast.Name) and x.id not in seen:
                    seen.add(x.id)
                    closure(x.id, seen)
        return seen
    roots_ = closure(nsub_names[0], {nsub_names[0]})
    for nm, l, r, st in ends:
        ctx.check(l in roots_ and r in roots_, "R6", nad, arm, "NonadiabaticDynamicsBase._propagate_electronic", f"{nsub_names[0]} depends on {l}, {r}",
                  f"the adaptive sub-step count is computed from the coupling at both ends of the step ({l}, {r})",
                  f"the adaptive sub-step count depends on {sorted(x for x in (l, r) if x in roots_) or 'neither end value'} only (of {l}, {r}): a coupling spike at the other end of the "
                  f"nuclear step is integrated with the base number of RK4 sub-steps and the electronic norm is lost to first order in the spike")


def _r7_tully_models(ctx, repo):
    """Energy conservation of the model surface-hopping runs needs force = -dE/dx on every adiabatic surface.  The 2x2
    diabatic->adiabatic conversion and the three model potentials are re-read as sympy expressions (V_ij as unknown functions of x for
    the conversion; explicit expressions on each side of x = 0 for the models) and differentiated."""
    import sympy as sp
    rel = "scripts/tully_surface_hopping/TullyModels.py"
    if not repo.has(rel):
        raise AnalysisError("TullyModels.py not found")
    m = repo.mod(rel)
    f = m.func("TullyModel._two_state_from_diabatic")
    x = sp.Symbol("x", real=True)
    V11, V22, V12 = (sp.Function(n)(x) for n in ("V11", "V22", "V12"))
    env = {"V11": V11, "V22": V22, "V12": V12, "dV11": sp.diff(V11, x), "dV22": sp.diff(V22, x), "dV12": sp.diff(V12, x)}
    funcs = torch_funcs()
    funcs["torch.stack"] = lambda a, n: tuple(a[0]) if isinstance(a[0], (list, tuple)) else a[0]
    ret = None
    for st in f.body:
        if isinstance(st, ast.Assign) and len(st.targets) == 1 and isinstance(st.targets[0], ast.Name):
            env[st.targets[0].id] = to_sympy(st.value, env, funcs)
        elif isinstance(st, ast.Return):
            ret = st
    if ret is None or not isinstance(ret.value, ast.Tuple) or len(ret.value.elts) != 3:
        raise AnalysisError("_two_state_from_diabatic: return (energies, gradients, coupling) not found")

    def stack_elems(e):
        if isinstance(e, ast.Call) and (call_name(e) or "") == "torch.stack" and e.args and isinstance(e.args[0], (ast.List, ast.Tuple)):
            return [to_sympy(v, env, funcs) for v in e.args[0].elts]
        raise AnalysisError("_two_state_from_diabatic: stacked return values not recognised")
    Es, dEs = stack_elems(ret.value.elts[0]), stack_elems(ret.value.elts[1])
    nac = to_sympy(ret.value.elts[2], env, funcs)
    delta = V11 - V22
    S = sp.sqrt(delta ** 2 + 4 * V12 ** 2)
    want = [(V11 + V22) / 2 - S / 2, (V11 + V22) / 2 + S / 2]
    for i, (E, dE) in enumerate(zip(Es, dEs)):
        ctx.check(sp.simplify(E - want[i]) == 0, "R7", m, f, "TullyModel._two_state_from_diabatic", f"E{i + 1}", f"E{i + 1} is the {'lower' if i == 0 else 'upper'} eigenvalue of the 2x2 diabatic matrix",
                  f"E{i + 1} = {E} is not an eigenvalue of [[V11, V12], [V12, V22]]")
        resid = sp.simplify(dE - sp.diff(E, x))
        ctx.check(resid == 0, "R7", m, f, "TullyModel._two_state_from_diabatic", f"dE{i + 1}", f"dE{i + 1} = d(E{i + 1})/dx identically in V11, V22, V12",
                  f"dE{i + 1} differs from the derivative of E{i + 1} by {resid}: the force on adiabatic surface {i + 1} is not -dE/dx, trajectories do not conserve energy")
    theta_p = (delta * sp.diff(V12, x) - sp.diff(delta, x) * V12) / (delta ** 2 + 4 * V12 ** 2)
    ctx.check(sp.simplify(nac - theta_p) == 0, "R7", m, f, "TullyModel._two_state_from_diabatic", "nac", "derivative coupling = d(theta)/dx with tan(2 theta) = 2 V12 / (V11 - V22)",
              f"derivative coupling {nac} is not d(theta)/dx = {theta_p}")
    # model potentials: each dVij equals the derivative of Vij on both sides of x = 0
    n = 0
    for qual, fn in m.functions.items():
        if not qual.endswith(".<locals>.pot"):
            continue
        outer = m.func(qual.rsplit(".<locals>.pot", 1)[0])
        consts = {}
        for st in outer.body:
            if isinstance(st, ast.Assign) and len(st.targets) == 1 and isinstance(st.targets[0], ast.Name):
                try:
                    consts[st.targets[0].id] = to_sympy(st.value, dict(consts), funcs)
                except AnalysisError:
                    pass
        for side in (1, -1):
            xs = sp.Symbol("xp", positive=True)
            xv = side * xs
            env2 = dict(consts)
            argname = fn.args.args[0].arg
            env2[argname] = xv
            f2 = dict(funcs)
            f2["torch.abs"] = lambda a, n_: sp.Abs(a[0])
            f2["torch.sign"] = lambda a, n_: sp.sign(a[0])
            f2["torch.exp"] = lambda a, n_: sp.exp(a[0])
            f2["torch.zeros_like"] = lambda a, n_: sp.Integer(0)
            f2["torch.ones_like"] = lambda a, n_: sp.Integer(1)
            for st in fn.body:
                if isinstance(st, ast.Assign) and len(st.targets) == 1 and isinstance(st.targets[0], ast.Name):
                    try:
                        env2[st.targets[0].id] = to_sympy(st.value, env2, f2)
                    except AnalysisError as e:
                        raise AnalysisError(f"{qual}: cannot interpret `{short(norm(st), 60)}`: {e}")
            for a in ("11", "22", "12"):
                if f"V{a}" in env2 and f"dV{a}" in env2:
                    n += 1
                    # d/dx = side * d/dxs
                    resid = sp.simplify(env2[f"dV{a}"] - side * sp.diff(env2[f"V{a}"], xs))
                    ctx.check(resid == 0, "R7", m, fn, qual, f"dV{a} ({'x>0' if side > 0 else 'x<0'})", f"{qual}: dV{a} = dV{a}/dx for {'x > 0' if side > 0 else 'x < 0'}",
                              f"{qual}: dV{a} differs from the derivative of V{a} by {resid} for {'x > 0' if side > 0 else 'x < 0'}")
    if n < 12:
        raise AnalysisError(f"only {n} model derivative identities checked")
