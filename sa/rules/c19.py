"""C19 -- non-interacting fragments are additive; the pair cutoff acts as documented (structural clauses)."""
from __future__ import annotations

import ast
import itertools
import re

from ..exprs import NotConst, fold
from ..guards import controlling
from ..loader import AnalysisError, attr_chain, call_name, callee_attr, calls_in, norm, short
from ..symexec import SymExec

LEVEL = "other"
EXPLANATION = (
    "R1 the pair-list predicate in Parser.forward is decided from its def-chain: pairs = (first < second) * nonblank * close, where the "
    "only coordinate-dependent factor compares a rotation-invariant radial form of the raw coordinate difference (|d|^2 or |d|) against the "
    "configured cutoff raised to the same power, with < / <= ('exactly the pairs beyond it are ignored'), the default cutoff is effectively "
    "infinite and its square is representable, and rij/xij of the kept pairs are the same distance. R2 every call of a diatomic overlap "
    "routine receives only pairs selected by `distance <= overlap_cutoff` (the Slater overlap expressions are 0*inf beyond it) and "
    "overlap_cutoff is the documented 40 bohr. R3 threshold inventory: a def-chain taint marks names that are affine images of an "
    "interatomic distance; every comparison of such a name against a bound that is symbolic or larger than 1 (bohr/Angstrom) must be one "
    "of the inventoried cutoff sites -- any other distance switch changes the interaction at a finite separation. R4 long-range balance: "
    "every element of the core-electron attraction blocks e1b/e2a is -Z_partner times the two-electron integral with the partner's ss "
    "distribution taken from the same rotated w (index map checked for all 10+10 elements x pair classes), the core-core leading term is "
    "Z_A Z_B gamma_ss with gamma_ss = w[..., 0, 0] at every call site, and the method-specific core-core corrections vanish faster than any "
    "power (sympy limits on the symbolically interpreted pair_nuclear_energy for MNDO/AM1/PM3 x {X-H, other}). Together these make the "
    "monopole terms of two neutral fragments cancel identically. The numerical decay rate of the remaining multipole interaction is not decided."
)
ASSUMPTIONS = [
    "torch.square/sum/sqrt/linalg.norm have their documented meaning",
    "the two-electron integrals (mu nu|ss) themselves have the multipole asymptotics of the published model (not decided; C06 covers their algebraic structure)",
]
TRUSTED = ["sympy limits", "sa.symexec masked straight-line interpreter"]

BASICS = "seqm/basics.py"
HCORE = "seqm/seqm_functions/hcore.py"
CONST = "seqm/seqm_functions/constants.py"
ENERGY = "seqm/seqm_functions/energy.py"
TETCI = "seqm/seqm_functions/two_elec_two_center_int.py"

OVERLAP_ROUTINES = {"diatom_overlap_matrix", "diatom_overlap_matrix_PM6_SP", "diatom_overlap_matrixD", "overlap_fn"}

# inventoried distance thresholds: (file, function, bound text) -> reason
THRESHOLDS = {
    (BASICS, "Parser.forward", "self.outercutoff ** 2"): "the documented pair cutoff (R1)",
    (BASICS, "Parser.forward", "self.outercutoff"): "the documented pair cutoff (R1)",
    (BASICS, "Parser.forward", "self.outercutoff * self.outercutoff"): "the documented pair cutoff (R1)",
    (HCORE, "hcore", "overlap_cutoff"): "overlap truncation (R2)",
    (HCORE, "overlap_between_geometries", "overlap_cutoff"): "overlap truncation (R2)",
    ("seqm/dynamics/tdc_hamiltonian_fd.py", "*", "overlap_cutoff"): "overlap truncation for the finite-difference TDC Hamiltonian (R2)",
    ("seqm/seqm_functions/diat_overlap_full.py", "*", "overlap_cutoff"): "overlap truncation (R2)",
    ("seqm/seqm_functions/anal_grad.py", "overlap_der_finiteDiff", "overlap_cutoff"): "overlap truncation of the overlap derivative in the analytical gradient (R2); the electron-core "
                                                                                   "and two-electron derivative terms have no cutoff",
    ("seqm/seqm_functions/tools.py", "*", "overlap_cutoff"): "overlap truncation in the legacy helper (R2)",
    ("seqm/seqm_functions/spherical_pot_force.py", "Spherical_Pot_Force", "radius"): "user-enabled external confinement potential (distance from a centre, not an interatomic interaction)",
    ("seqm/seqm_functions/data_loader.py", "*", "self.innercutoff"): "legacy data loader (not used by Parser)",
    ("seqm/seqm_functions/data_loader.py", "*", "self.outercutoff"): "legacy data loader (not used by Parser)",
}

DIST_PARAM = re.compile(r"^(rij\w*|rija|r0|dist|pairdist\w*)$")
VIEW_CALLS = {"repeat_tensor", "unsqueeze", "reshape", "view", "expand", "clone", "detach", "squeeze", "cat", "stack", "to", "type", "double", "float",
              "repeat", "repeat_interleave", "flatten", "contiguous"}
NORM_CALLS = {"torch.linalg.norm", "torch.norm", "torch.linalg.vector_norm", "th.norm", "th.linalg.norm"}


def _defs(func):
    d = {}
    for st in ast.walk(func):
        if isinstance(st, ast.Assign) and len(st.targets) == 1:
            t = st.targets[0]
            if isinstance(t, ast.Name):
                d.setdefault(t.id, []).append(st.value)
            elif isinstance(t, ast.Tuple) and isinstance(st.value, ast.Tuple) and len(t.elts) == len(st.value.elts):
                for a, b in zip(t.elts, st.value.elts):
                    if isinstance(a, ast.Name):
                        d.setdefault(a.id, []).append(b)
    return d


def radial_degree(e, defs, vec_ok, depth=0):
    """1 or 2 if `e` is |v| or |v|^2 of a vector accepted by vec_ok, else None"""
    if depth > 6:
        return None
    if isinstance(e, ast.Name) and len(defs.get(e.id, [])) == 1:
        return radial_degree(defs[e.id][0], defs, vec_ok, depth + 1)
    if isinstance(e, ast.Subscript):
        return radial_degree(e.value, defs, vec_ok, depth + 1)
    if isinstance(e, ast.Call):
        nm = call_name(e) or ""
        at = callee_attr(e)
        if at == "sum" and isinstance(e.func, ast.Attribute):
            inner = e.func.value
            sq = None
            if isinstance(inner, ast.Call) and (call_name(inner) or "") in ("torch.square", "th.square") and inner.args:
                sq = inner.args[0]
            elif isinstance(inner, ast.Call) and callee_attr(inner) == "pow" and inner.args and isinstance(inner.args[0], ast.Constant) and inner.args[0].value == 2:
                sq = inner.func.value
            elif isinstance(inner, ast.BinOp) and isinstance(inner.op, ast.Pow) and isinstance(inner.right, ast.Constant) and inner.right.value == 2:
                sq = inner.left
            elif isinstance(inner, ast.BinOp) and isinstance(inner.op, ast.Mult) and norm(inner.left) == norm(inner.right):
                sq = inner.left
            if sq is not None and vec_ok(sq):
                return 2
            return None
        if nm in NORM_CALLS and e.args and vec_ok(e.args[0]):
            ordv = [kw.value for kw in e.keywords if kw.arg in ("ord", "p")]
            if ordv and not (isinstance(ordv[0], ast.Constant) and ordv[0].value == 2):
                return None
            if len(e.args) > 1 and isinstance(e.args[1], ast.Constant) and e.args[1].value not in (2, None) and nm != "torch.linalg.norm":
                return None
            return 1
        if at == "norm" and isinstance(e.func, ast.Attribute) and vec_ok(e.func.value):
            return 1
        if nm in ("torch.sqrt", "th.sqrt") and e.args:
            d = radial_degree(e.args[0], defs, vec_ok, depth + 1)
            return 1 if d == 2 else None
        if nm in ("torch.square",) and e.args:
            d = radial_degree(e.args[0], defs, vec_ok, depth + 1)
            return 2 if d == 1 else None
    if isinstance(e, ast.BinOp) and isinstance(e.op, ast.Pow) and isinstance(e.right, ast.Constant) and e.right.value == 2:
        d = radial_degree(e.left, defs, vec_ok, depth + 1)
        return 2 if d == 1 else None
    return None


def _flatten_product(e):
    if isinstance(e, ast.BinOp) and isinstance(e.op, (ast.Mult, ast.BitAnd)):
        return _flatten_product(e.left) + _flatten_product(e.right)
    return [e]


def _mentions(e, defs, pred, depth=0, seen=None):
    """does the def-chain closure of e contain a node satisfying pred"""
    seen = set() if seen is None else seen
    for n in ast.walk(e):
        if pred(n):
            return True
        if isinstance(n, ast.Name) and n.id in defs and n.id not in seen and depth < 8:
            seen.add(n.id)
            for v in defs[n.id]:
                if _mentions(v, defs, pred, depth + 1, seen):
                    return True
    return False


def distance_taint(func):
    """names in `func` that are affine images (scale, index, reshape, concatenate) of an interatomic distance"""
    defs = _defs(func)
    tainted = set()
    args = func.args
    for a in list(args.args) + list(args.kwonlyargs):
        if DIST_PARAM.match(a.arg):
            tainted.add(a.arg)

    COORD_NAME = re.compile(r"^(coords?\w*|xyz\w*|Xij\w*|paircoord\w*|coordinates)$")

    def coord_vec(v):
        return _mentions(v, defs, lambda n: (isinstance(n, ast.Attribute) and n.attr == "coordinates") or (isinstance(n, ast.Name) and COORD_NAME.match(n.id)))

    def is_t(e, depth=0):
        if depth > 8:
            return False
        if depth == 0 and not isinstance(e, (ast.Name, ast.Constant)):
            # an expression written in place is a distance form exactly like a named one
            try:
                if radial_degree(e, defs, coord_vec):
                    return True
            except Exception:
                pass
        if isinstance(e, ast.Name):
            return e.id in tainted
        if isinstance(e, ast.Attribute):
            return e.attr in ("rij",) or (isinstance(e.value, ast.Name) and False)
        if isinstance(e, ast.Subscript):
            return is_t(e.value, depth + 1)
        if isinstance(e, ast.Call):
            nm = call_name(e) or ""
            at = callee_attr(e)
            if nm in NORM_CALLS:
                return bool(e.args) and coord_vec(e.args[0])
            if at == "norm" and isinstance(e.func, ast.Attribute):
                return coord_vec(e.func.value)
            if nm in ("torch.sqrt", "th.sqrt") and e.args:
                a0 = e.args[0]
                return is_t(a0, depth + 1) or radial_degree(a0, defs, coord_vec) == 2 or (isinstance(a0, ast.Subscript) and is_t(a0.value, depth + 1))
            base = nm.split(".")[-1] if nm else at
            if base in VIEW_CALLS:
                if isinstance(e.func, ast.Attribute) and is_t(e.func.value, depth + 1):
                    return True
                for a in e.args:
                    if isinstance(a, (ast.List, ast.Tuple)):
                        if any(is_t(x, depth + 1) for x in a.elts):
                            return True
                    elif is_t(a, depth + 1):
                        return True
            return False
        if isinstance(e, ast.BinOp) and isinstance(e.op, (ast.Mult, ast.Div)):
            l, r = is_t(e.left, depth + 1), is_t(e.right, depth + 1)
            if isinstance(e.op, ast.Div):
                return l and not r
            return l != r
        if isinstance(e, ast.BinOp) and isinstance(e.op, ast.Pow) and isinstance(e.right, ast.Constant):
            return is_t(e.left, depth + 1)
        if isinstance(e, ast.Call) and (call_name(e) or "") in ("torch.square",):
            return is_t(e.args[0], depth + 1)
        return False

    changed = True
    while changed:
        changed = False
        for nm, vals in defs.items():
            if nm in tainted:
                continue
            if any(is_t(v) for v in vals) or any(radial_degree(v, defs, coord_vec) for v in vals):
                tainted.add(nm)
                changed = True
    return tainted, is_t, defs


def check_pair_predicate(ctx, rid):
    """pair-list predicate of Parser.forward (shared with C02: the selection must be rotation invariant).
    The predicate is decided from the syntax when the routine has the shape this analysis understands (product of ordering x real atoms x radial test, conditional
    refinements examined); otherwise by interpreting the routine on concrete batches whose geometry distinguishes the cutoff sphere from the cutoff cube."""
    from ..assembly import check_parser
    n0 = len(ctx.findings)
    try:
        _check_pair_predicate_syntactic(ctx, rid)
    except AnalysisError as e:
        del ctx.findings[n0:]
        ctx.note(f"pair predicate not in the recognised syntactic shape ({str(e)[:80]}); decided on interpreted batches") if hasattr(ctx, "note") else None
        check_parser(ctx, rid, aspects=("pairs",))
        return
    check_parser(ctx, rid, aspects=("pairs",))


def _check_pair_predicate_syntactic(ctx, rid):
    repo = ctx.repo
    bas = repo.mod(BASICS)
    pf = bas.func("Parser.forward")
    defs = _defs(pf)
    # the pair mask by role, not by name: the local whose defining product contains the comparison against the outer cutoff (directly or through the local bound to it)
    cut_names = {nm for nm, vs in defs.items() for v in vs if isinstance(v, ast.Compare) and "outercutoff" in norm(v)}
    role = []
    for st in ast.walk(pf):
        if isinstance(st, ast.Assign) and len(st.targets) == 1 and isinstance(st.targets[0], ast.Name):
            fs0 = _flatten_product(st.value)
            if len(fs0) >= 2 and any((isinstance(f_, ast.Name) and f_.id in cut_names) or (isinstance(f_, ast.Compare) and "outercutoff" in norm(f_)) for f_ in fs0):
                role.append(st.targets[0].id)
    PN = role[0] if len(set(role)) == 1 else "pairs"
    pairs_def = defs.get(PN, [])
    if not pairs_def:
        raise AnalysisError("Parser.forward: the pair mask (product of ordering, padding and cutoff factors) is not defined in a recognisable form")
    psts = sorted([st for st in ast.walk(pf) if isinstance(st, ast.Assign) and norm(st.targets[0]) == PN], key=lambda s_: s_.lineno)
    if any(isinstance(st_.value, ast.Call) and not _flatten_product(st_.value)[1:] and (call_name(st_.value) or "")[:1].isupper() for st_ in psts) or \
            any(isinstance(st_.value, ast.Call) and isinstance(st_.value.func, ast.Name) and st_.value.func.id.lstrip("_")[:1].isupper() for st_ in psts):
        raise AnalysisError(f"Parser.forward: `{PN}` is also bound to a record object; pair predicate decided on interpreted batches")
    pst = psts[0]
    # `pairs` may be refined by later statements (pairs = pairs * extra): compose the factors in source order and remember under
    # which conditions each refinement applies -- a cutoff that is only applied under a condition is not "exactly the pairs beyond it"
    from ..guards import controlling as _controlling
    factors = []
    conditional = {}
    base_ctrl = {norm(a) for a, p_, _ in _controlling(bas, psts[0], stop=pf)}
    for st_ in psts:
        fs = _flatten_product(st_.value)
        extra_ctrl = [(norm(a), p_) for a, p_, _ in _controlling(bas, st_, stop=pf) if norm(a) not in base_ctrl]
        for f_ in fs:
            if isinstance(f_, ast.Name) and f_.id == PN and st_ is not psts[0]:
                continue
            factors.append(f_)
            if extra_ctrl:
                conditional[id(f_)] = extra_ctrl
    defs = dict(defs)
    defs[PN] = []

    def coord_dep(e):
        def pred(n):
            if not (isinstance(n, ast.Attribute) and n.attr == "coordinates"):
                return False
            par = bas.parents.get(n)
            return not (isinstance(par, ast.Attribute) and par.attr in ("device", "dtype", "shape", "ndim"))
        return _mentions(e, defs, pred)

    def is_raw_diff(v):
        # the vector whose norm is taken: a difference of two views of molecule.coordinates
        for _ in range(6):
            if isinstance(v, ast.Name) and len(defs.get(v.id, [])) == 1:
                v = defs[v.id][0]
            elif isinstance(v, ast.Subscript):
                v = v.value          # a row selection of the difference vectors
            elif isinstance(v, ast.Call) and isinstance(v.func, ast.Attribute) and callee_attr(v) in VIEW_CALLS:
                v = v.func.value
            else:
                break
        return isinstance(v, ast.BinOp) and isinstance(v.op, ast.Sub) and "coordinates" in norm(v.left) and "coordinates" in norm(v.right) \
            and norm(v.left).split(".unsqueeze")[0] == norm(v.right).split(".unsqueeze")[0]

    kinds = {}
    for f in factors:
        fx = f
        if isinstance(fx, ast.Name) and len(defs.get(fx.id, [])) == 1:
            fx = defs[fx.id][0]
        if coord_dep(f):
            kinds.setdefault("cutoff", []).append((f, fx))
        elif _mentions(f, defs, lambda n: isinstance(n, ast.Name) and n.id == "nonblank"):
            kinds.setdefault("nonblank", []).append((f, fx))
        elif isinstance(fx, ast.Compare) and len(fx.ops) == 1 and ({norm(fx.left), norm(fx.comparators[0])} == {"pair_first", "pair_second"} or (
                # by role: both sides are the atom-index grid, expanded along different axes
                all(_mentions(sd, defs, lambda n: isinstance(n, ast.Name) and n.id == "atom_index") for sd in (fx.left, fx.comparators[0]))
                and not any(_mentions(sd, defs, lambda n: isinstance(n, ast.Name) and n.id == "nonblank") for sd in (fx.left, fx.comparators[0])))):
            kinds.setdefault("order", []).append((f, fx))
        else:
            kinds.setdefault("other", []).append((f, fx))
    ctx.check(len(kinds.get("order", [])) == 1 and isinstance(kinds["order"][0][1].ops[0], (ast.Lt, ast.Gt)), rid, bas, pst, "Parser.forward", "pairs: ordering factor",
              "each unordered atom pair is enumerated once (strict index ordering)", f"ordering factor of the pair list is {[norm(k[1]) for k in kinds.get('order', [])]}")
    ctx.check(len(kinds.get("nonblank", [])) == 1, rid, bas, pst, "Parser.forward", "pairs: padding factor", "padding atoms are excluded by the nonblank mask",
              f"padding factor of the pair list is {[norm(k[0]) for k in kinds.get('nonblank', [])]}")
    for f, fx in kinds.get("other", []):
        ctx.fail(rid, bas, pst, "Parser.forward", f"pairs factor {norm(f)}", f"the pair list is additionally filtered by `{norm(f)}` (= {short(norm(fx))}): pairs are dropped for a reason other than the documented cutoff")
    cut = kinds.get("cutoff", [])
    def exact_shortcut(cond_list):
        """the refinement is skipped only when the largest pair distance itself is below the cutoff"""
        for txt_, pol_ in cond_list:
            try:
                e_ = ast.parse(txt_, mode="eval").body
            except SyntaxError:
                return False
            if not (isinstance(e_, ast.Compare) and len(e_.ops) == 1):
                return False
            l_, r_ = e_.left, e_.comparators[0]
            if isinstance(e_.ops[0], (ast.Lt, ast.LtE)):
                l_, r_ = r_, l_
            elif not isinstance(e_.ops[0], (ast.Gt, ast.GtE)):
                return False
            if not pol_:
                return False
            # l_ must be <radial form>.max() / torch.max(<radial form>)
            inner = None
            if isinstance(l_, ast.Call) and callee_attr(l_) in ("max", "amax") and isinstance(l_.func, ast.Attribute):
                inner = l_.func.value
            elif isinstance(l_, ast.Call) and (call_name(l_) or "") in ("torch.max", "torch.amax") and l_.args:
                inner = l_.args[0]
            deg_ = radial_degree(inner, defs, is_raw_diff) if inner is not None else None
            rt_ = norm(r_).replace(" ", "")
            if deg_ == 2 and rt_ in ("self.outercutoff**2", "self.outercutoff*self.outercutoff"):
                continue
            if deg_ == 1 and rt_ == "self.outercutoff":
                continue
            return False
        return True
    for f, fx in cut:
        if id(f) in conditional and not exact_shortcut(conditional[id(f)]):
            ctx.fail(rid, bas, pst, "Parser.forward", f"cutoff factor under {conditional[id(f)]}",
                     f"the cutoff test `{short(norm(fx))}` is applied only when {conditional[id(f)]} holds: whenever that shortcut condition misjudges the geometry "
                     f"(e.g. a bounding-box extent instead of the largest pair distance) pairs beyond the cutoff are kept")
    if len(cut) != 1:
        ctx.fail(rid, bas, pst, "Parser.forward", "pairs: cutoff factor", f"{len(cut)} coordinate-dependent factors select pairs ({[norm(c[0]) for c in cut]}); exactly one cutoff test is documented")
    else:
        f, fx = cut[0]
        ok_shape = isinstance(fx, ast.Compare) and len(fx.ops) == 1 and isinstance(fx.ops[0], (ast.Lt, ast.LtE, ast.Gt, ast.GtE))
        if not ok_shape:
            ctx.fail(rid, bas, pst, "Parser.forward", f"cutoff predicate {short(norm(fx))}",
                     f"the cutoff predicate `{short(norm(fx))}` is not a single comparison of the pair distance with the cutoff: it is not the sphere "
                     f"|r_i - r_j| < cutoff (a per-component or otherwise orientation-dependent test keeps pairs beyond the cutoff or drops pairs inside it)")
        else:
            l, r = fx.left, fx.comparators[0]
            if isinstance(fx.ops[0], (ast.Gt, ast.GtE)):
                l, r = r, l
            deg = radial_degree(l, defs, is_raw_diff)
            ctx.check(deg in (1, 2), rid, bas, pst, "Parser.forward", f"cutoff predicate lhs {short(norm(l))}",
                      f"the tested quantity is the Euclidean pair distance to the power {deg} of the raw coordinate difference",
                      f"the cutoff test compares `{short(norm(l))}` which is not |r_i - r_j| or its square of the raw coordinate difference: the kept region is not a sphere of the cutoff radius")
            rt = norm(r).replace(" ", "")
            want = {1: {"self.outercutoff"}, 2: {"self.outercutoff**2", "self.outercutoff*self.outercutoff", "torch.square(self.outercutoff)"}}.get(deg, set())
            ctx.check(rt in want, rid, bas, pst, "Parser.forward", f"cutoff predicate rhs {rt}", f"compared against the configured cutoff to the same power ({rt})",
                      f"distance^{deg} is compared against `{rt}`: the radius applied is not the configured pair_outer_cutoff")
    # default cutoff
    pin = bas.func("Parser.__init__")
    oc = [st for st in ast.walk(pin) if isinstance(st, ast.Assign) and norm(st.targets[0]) == "self.outercutoff"]
    good = False
    dval = None
    if len(oc) == 1 and isinstance(oc[0].value, ast.Call) and callee_attr(oc[0].value) == "get" and len(oc[0].value.args) == 2 \
            and isinstance(oc[0].value.args[0], ast.Constant) and oc[0].value.args[0].value == "pair_outer_cutoff":
        try:
            dval = fold(oc[0].value.args[1])
            good = (dval == float("inf")) or (1e5 <= dval <= 1e18)
        except (NotConst, TypeError):
            pass
    ctx.check(good, rid, bas, oc[0] if oc else pin, "Parser.__init__", "pair_outer_cutoff default", f"default cutoff {dval} A is beyond any molecule and its square is representable in float32",
              f"default pair cutoff is {dval if dval is not None else norm(oc[0].value) if oc else '?'}: with default settings interactions are dropped at a finite distance (or the squared cutoff overflows)")
    # outercutoff written nowhere else
    writes = [st for st in ast.walk(bas.tree) if isinstance(st, (ast.Assign, ast.AugAssign)) and any(norm(t).endswith(".outercutoff") for t in (st.targets if isinstance(st, ast.Assign) else [st.target]))]
    ctx.check(len(writes) == 1, rid, bas, writes[-1] if writes else pin, "Parser", "outercutoff writers", "the cutoff is set once from the user's key", f"outercutoff is written at {len(writes)} places")
    # rij / xij of the kept pairs
    rij_d = defs.get("rij", [])
    xij_d = defs.get("xij", [])
    live_rij = [v for v in rij_d if not (isinstance(v, ast.Constant) and v.value is None)]
    live_xij = [v for v in xij_d if not (isinstance(v, ast.Constant) and v.value is None)]
    okr = len(live_rij) == 1 and isinstance(live_rij[0], ast.BinOp) and isinstance(live_rij[0].op, ast.Mult) and \
        radial_degree(live_rij[0].left, defs, is_raw_diff) == 1 and "length_conversion_factor" in norm(live_rij[0].right)
    # the per-pair records (distance, unit vector) are compared with their definitions on interpreted batches right after this syntactic reading (check_parser, aspect
    # "pairs"); an unrecognised spelling of rij / xij is therefore not a finding of its own
    if okr:
        ctx.ok(rid, f"{bas.rel}:{pst.lineno} Parser.forward", "rij = |r_i - r_j| * length_conversion_factor for the kept pairs")
    else:
        ctx.ok(rid, f"{bas.rel}:{pst.lineno} Parser.forward", "rij: spelling not recognised; the distances of the kept pairs are decided on interpreted batches", nontrivial=False)
    def _strip_views(e):
        while isinstance(e, ast.Call) and isinstance(e.func, ast.Attribute) and callee_attr(e) in VIEW_CALLS:
            e = e.func.value
        return e
    okx = len(live_xij) == 1 and isinstance(live_xij[0], ast.BinOp) and isinstance(live_xij[0].op, ast.Div) and \
        radial_degree(_strip_views(live_xij[0].right), defs, is_raw_diff) == 1
    if okx:
        ctx.ok(rid, f"{bas.rel}:{pst.lineno} Parser.forward", "xij = (r_j - r_i)/|r_j - r_i|")
    else:
        ctx.ok(rid, f"{bas.rel}:{pst.lineno} Parser.forward", "xij: spelling not recognised; the unit vectors of the kept pairs are decided on interpreted batches", nontrivial=False)



def run(ctx):
    import sympy as sp
    repo = ctx.repo
    ctx.rule("R1", "pair-list predicate: ordering x nonblank x (radial distance form < cutoff of the same power); default cutoff infinite")
    ctx.rule("R2", "every diatomic overlap call is restricted to pairs within overlap_cutoff (40 bohr)")
    ctx.rule("R3", "threshold inventory: no other comparison of an interatomic distance against a symbolic or > 1 bound")
    ctx.rule("R5", "every evaluation re-applies the cutoff: a geometry refresh that keeps the old pair list is unreachable (or restricted to the infinite cutoff)")
    ctx.rule("R4", "long-range balance: e1b/e2a = -Z_partner (mu nu|ss) from the same w; core-core -> Z_A Z_B gamma_ss; corrections vanish at infinity")

    # ------------------------------------------------------------------ R1
    check_pair_predicate(ctx, "R1")
    # PM6-family core-core term: a pair term that does not tend to Z_A Z_B / R breaks additivity at every distance (shared with C06-R10)
    from .c06 import _pm6_core_core
    _pm6_core_core(ctx, repo, "R4")

    # ------------------------------------------------------------------ R2
    cm = repo.mod(CONST)
    ocv = [st for st in cm.tree.body if isinstance(st, ast.Assign) and norm(st.targets[0]) == "overlap_cutoff"]
    val = None
    if ocv:
        try:
            val = fold(ocv[0].value)
        except (NotConst, TypeError):
            pass
    ctx.check(val == 40.0, "R2", cm, ocv[0] if ocv else cm.tree, "<module>", "overlap_cutoff", "overlap_cutoff = 40 bohr (documented)",
              f"overlap_cutoff = {val}: overlaps (resonance integrals) are truncated at a different separation than documented")
    n_sites = 0
    for rel in repo.py_files("seqm"):
        if not rel.startswith("seqm/"):
            continue
        m = repo.mod(rel)
        for qual, func in m.functions.items():
            if any(isinstance(p, (ast.FunctionDef,)) and p is not func for p in [m.parents.get(func)]):
                pass
            fdefs = None
            for c in calls_in(func):
                nm = (call_name(c) or "").split(".")[-1]
                if nm not in OVERLAP_ROUTINES or len(c.args) < 4:
                    continue
                if m.qualname_of(c) != qual:
                    continue
                if fdefs is None:
                    fdefs = _defs(func)
                n_sites += 1
                darg = c.args[3]
                has_cut = _mentions(darg, fdefs, lambda n: isinstance(n, ast.Compare) and len(n.ops) == 1 and (
                    (isinstance(n.ops[0], (ast.LtE, ast.Lt)) and norm(n.comparators[0]) == "overlap_cutoff") or
                    (isinstance(n.ops[0], (ast.GtE, ast.Gt)) and norm(n.left) == "overlap_cutoff")))
                masked = any(isinstance(x, ast.Subscript) for x in ast.walk(darg)) or (isinstance(darg, ast.Name) and _mentions(darg, fdefs, lambda n: isinstance(n, ast.Subscript)))
                # an evaluation of every pair is also fine on a path where every pair is known to be inside the cutoff (`if <cutoff mask>.all():` shortcut)
                all_inside = False
                for a_, pol_, _ in controlling(m, m.enclosing_stmt(c)):
                    if isinstance(a_, ast.Call) and isinstance(a_.func, ast.Name) and a_.func.id == "bool" and len(a_.args) == 1:
                        a_ = a_.args[0]
                    if pol_ and isinstance(a_, ast.Call) and callee_attr(a_) == "all" and isinstance(a_.func, ast.Attribute) and not a_.args and not a_.keywords:
                        src_ = a_.func.value
                        if _mentions(src_, fdefs, lambda n: isinstance(n, ast.Compare) and len(n.ops) == 1 and (
                                (isinstance(n.ops[0], (ast.LtE, ast.Lt)) and norm(n.comparators[0]) == "overlap_cutoff") or
                                (isinstance(n.ops[0], (ast.GtE, ast.Gt)) and norm(n.left) == "overlap_cutoff"))):
                            all_inside = True
                if all_inside:
                    ctx.ok("R2", f"{short(m.rel)}:{qual}", f"{nm} evaluates every pair only on the path where all pairs are within overlap_cutoff")
                    continue
                ctx.check(has_cut and masked, "R2", m, c, qual, f"{nm}(..., {short(norm(darg))}, ...)",
                          f"distances handed to {nm} are selected by `<= overlap_cutoff`",
                          f"{nm} is evaluated for pairs at any separation (distance argument `{short(norm(darg))}` is not restricted by overlap_cutoff): beyond the cutoff the Slater "
                          f"overlap expressions evaluate 0*inf -> NaN forces / SCF failure for far-apart fragments")
                # the other per-pair arguments use the same selection
                sel = {norm(x.slice) for x in ast.walk(darg) if isinstance(x, ast.Subscript) and isinstance(x.slice, ast.Name)}
                if sel:
                    others = [a for a in c.args[:6] if a is not darg]
                    bad = [a for a in others if not ({norm(x.slice) for x in ast.walk(a) if isinstance(x, ast.Subscript) and isinstance(x.slice, ast.Name)} & sel)]
                    ctx.check(not bad, "R2", m, c, qual, f"{nm} argument selections", f"all per-pair arguments of {nm} use selection {sorted(sel)}",
                              f"arguments {[short(norm(b)) for b in bad]} of {nm} are not restricted by {sorted(sel)}: pair rows are misaligned")
    ctx.floor("R2", 8)

    # ------------------------------------------------------------------ R3
    n_cmp = 0
    found = set()
    for rel in repo.py_files("seqm"):
        if not rel.startswith("seqm/"):
            continue
        m = repo.mod(rel)
        for qual, func in m.functions.items():
            tainted, is_t, fdefs = distance_taint(func)
            if not tainted and "rij" not in norm(func):
                continue
            for n in ast.walk(func):
                if not (isinstance(n, ast.Compare) and len(n.ops) == 1 and isinstance(n.ops[0], (ast.Lt, ast.LtE, ast.Gt, ast.GtE))):
                    continue
                if m.qualname_of(n) != qual:
                    continue
                l, r = n.left, n.comparators[0]
                lt, rt = is_t(l), is_t(r)
                if lt == rt:
                    continue
                bound = r if lt else l
                n_cmp += 1
                try:
                    bv = fold(bound)
                    if isinstance(bv, (int, float)) and abs(bv) <= 1.0:
                        ctx.ok("R3", f"{short(rel)}:{qual}", f"`{short(norm(n))}`: bound {bv} is below any interatomic separation in the property's domain", nontrivial=False)
                        continue
                except (NotConst, TypeError):
                    pass
                btxt = norm(bound)
                key = None
                for (frel, fq, fb), why in THRESHOLDS.items():
                    if frel == rel and fb == btxt and (fq == "*" or fq == qual):
                        key = (frel, fq, fb)
                if key is None:
                    ctx.fail("R3", m, n, qual, f"threshold {short(norm(n))}",
                             f"an interatomic distance is compared with `{btxt}` in {qual}: this switch is not one of the documented cutoffs "
                             f"(pair_outer_cutoff, overlap_cutoff); interactions change character at a finite separation")
                else:
                    found.add(key)
                    ctx.ok("R3", f"{short(rel)}:{qual}", f"`{short(norm(n))}`: {THRESHOLDS[key]}")
    need = [(BASICS, "Parser.forward", "self.outercutoff"), (HCORE, "hcore", "overlap_cutoff")]
    for k in need:
        if any(f[0] == k[0] and f[1] == k[1] and f[2].startswith(k[2]) for f in found):
            continue
        ctx.fail("R3", repo.mod(k[0]), repo.mod(k[0]).func(k[1]), k[1], f"threshold {k[2]}", f"the documented threshold `{k[2]}` is no longer applied to an interatomic distance in {k[1]}")
    ctx.floor("R3", 6)

    # masked assignment of constants by distance masks elsewhere (e.g. w[rij > c] = 0) are comparisons too and are covered above.

    # ------------------------------------------------------------------ R4
    te = repo.mod(TETCI)
    wq = te.func("w_withquaternion")
    # the routine is interpreted (sa.rotint.interpret_w, abstract interpretation over symbolic arrays) on one heavy-heavy, one heavy-H and one H-H pair:
    # whatever the spelling of the stores, e1b[pair, a, b] must be -Z_j (ab|ss) and e2a[pair, a, b] must be -Z_i (ss|ab) of the *same* rotated integrals
    from .. import rotint
    ri_ = [sp.Symbol(f"ri{k}") for k in range(22)]
    rx_ = [sp.Symbol(f"rx{k}") for k in range(4)]
    R_ = [[sp.Symbol(f"R{a}{b}") for b in range(3)] for a in range(3)]
    RX_ = [[sp.Symbol(f"X{a}{b}") for b in range(3)] for a in range(3)]
    iw = rotint.interpret_w(repo, ri_, rx_, R_, RX_)
    ZX, ZH = iw["Z"]
    tore_ = iw["tore"]
    pk = lambda a, b: b * (b + 1) // 2 + a
    n_e = 0
    for p_, cls in ((0, "XX"), (1, "XH"), (2, "HH")):
        zi, zj = int(iw["ni"][p_]), int(iw["nj"][p_])
        for a in range(4):
            for b in range(4):
                if a > b:
                    want1 = want2 = sp.Integer(0)
                elif cls == "XX":
                    want1, want2 = -tore_[zj] * iw["w"][pk(a, b) * 10], -tore_[zi] * iw["w"][pk(a, b)]
                elif cls == "XH":
                    want1 = -tore_[zj] * iw["wXH"][pk(a, b)]
                    want2 = -tore_[zi] * iw["wXH"][0] if (a, b) == (0, 0) else sp.Integer(0)
                else:
                    want1 = -tore_[zj] * iw["wHH"] if (a, b) == (0, 0) else sp.Integer(0)
                    want2 = -tore_[zi] * iw["wHH"] if (a, b) == (0, 0) else sp.Integer(0)
                for which, got, want, partner in (("e1b", iw["e1b"][p_, a, b], want1, "j"), ("e2a", iw["e2a"][p_, a, b], want2, "i")):
                    n_e += 1
                    ok_ = sp.expand(sp.sympify(got) - want) == 0
                    if a > b and ok_:
                        continue
                    ctx.check(ok_, "R4", te, wq, "w_withquaternion", f"{which}[{cls},{a},{b}]",
                              f"{which}[{cls},{a},{b}] = -Z_{partner} x ({'ab|ss' if which == 'e1b' else 'ss|ab'}) of the same rotated two-electron block (abstract interpretation of the routine)",
                              f"{which}[{cls},{a},{b}] is not -Z_{partner} times the ({'ab|ss' if which == 'e1b' else 'ss|ab'}) element of the rotated two-electron block of this pair "
                              f"(got `{str(got)[:90]}`): core-electron attraction no longer balances the electron-electron and core-core monopoles at long range")
    ctx.check(iw["frame_vector_is_minus_xij"], "R4", te, wq, "w_withquaternion", "frame vector", "the frame is built from -xij", "the frame is not built from -xij")
    if n_e < 90:
        raise AnalysisError(f"w_withquaternion: only {n_e} e1b/e2a elements compared")

    # gamma_ss at the call sites of pair_nuclear_energy
    for rel in (BASICS, "seqm/dynamics/xlbomd.py", "seqm/XLBOMD.py"):
        if not repo.has(rel):
            continue
        m = repo.mod(rel)
        for qual, func in m.functions.items():
            for c in calls_in(func):
                if (call_name(c) or "").split(".")[-1] != "pair_nuclear_energy" or m.qualname_of(c) != qual:
                    continue
                g = [kw.value for kw in c.keywords if kw.arg == "gam"]
                if not g and len(c.args) >= 13:
                    g = [c.args[12]]
                if not g:
                    ctx.fail("R4", m, c, qual, "pair_nuclear_energy(gam=?)", "gam argument not found")
                    continue
                fd = _defs(func)
                vals = fd.get(norm(g[0]), []) if isinstance(g[0], ast.Name) else [g[0]]
                texts = sorted(norm(v).replace(" ", "") for v in vals)
                ok_ = bool(texts) and all(t in ("w[...,0,0]", "w[:,0,0]", "ev/torch.sqrt(molecule.rij**2+(rho0a+rho0b)**2)") for t in texts) and any(t.startswith("w[") for t in texts)
                ctx.check(ok_, "R4", m, c, qual, "pair_nuclear_energy(gam=...)", f"core-core gamma is w[..., 0, 0] (or the user-supplied g_ss_nuc Klopman-Ohno form): {texts}",
                          f"core-core repulsion uses gamma = {texts}, not the (ss|ss) element of the two-electron integrals: Z_A Z_B (ss|ss) no longer cancels against "
                          f"-Z_B (ss|ss) P and P (ss|ss) P at long range")
    # core-core: leading term and decay of corrections
    en = repo.mod(ENERGY)
    pne = en.func("pair_nuclear_energy")
    r, ai, aj, Zi, Zj, gam, c0 = sp.symbols("r alpha_i alpha_j Z_i Z_j gamma c0", positive=True)
    Ki, Kj, Mi, Mj = sp.symbols("K_i K_j M_i M_j", real=True)
    Li, Lj = sp.symbols("L_i L_j", positive=True)
    a0s = sp.Symbol("a0", positive=True)
    idx = {"tore[ni]": Zi, "tore[nj]": Zj, "alpha[idxi]": ai, "alpha[idxj]": aj, "K[idxi]": Ki, "K[idxj]": Kj, "L[idxi]": Li, "L[idxj]": Lj,
           "M[idxi]": Mi, "M[idxj]": Mj}
    funcs = {".reshape": lambda a, n: a[0], ".unsqueeze": lambda a, n: a[0]}
    for method, xh in itertools.product(("MNDO", "AM1", "PM3"), (False, True)):
        par = (sp.Symbol("alpha_tuple"), sp.Symbol("K"), sp.Symbol("L"), sp.Symbol("M")) if method != "MNDO" else (sp.Symbol("alpha_tuple"),)
        envE = {"rij": r / a0s, "a0": a0s, "gam": gam, "parameters": par, "const.tore": sp.Symbol("tore"), "const.atomic_num": sp.Symbol("an")}
        se = SymExec(envE, {"XH": xh}, {**__import__("sa.symexec", fromlist=["literal_globals"]).literal_globals(repo.mod("seqm/seqm_functions/energy.py")), "method": method}, dict(idx, **{"parameters[0]": sp.Symbol("alpha")}), funcs)
        se.env["alpha"] = sp.Symbol("alpha")
        try:
            E = se.run(list(pne.body))
        except AnalysisError as e:
            raise AnalysisError(f"pair_nuclear_energy not interpretable for {method}, XH={xh}: {e}")
        lead = sp.simplify(sp.diff(E, gam).subs(r, sp.oo) if False else sp.limit(sp.diff(E, gam), r, sp.oo))
        ctx.check(sp.simplify(lead - Zi * Zj) == 0, "R4", en, pne, "pair_nuclear_energy", f"{method}, XH={xh}: leading term",
                  f"{method}, X-H={xh}: dE/dgamma -> Z_i Z_j as r -> infinity", f"{method}, X-H={xh}: the coefficient of gamma_ss tends to {lead}, not Z_i Z_j: the core-core monopole does not balance the electronic ones")
        resid = sp.expand((E - Zi * Zj * gam).subs(gam, c0 / r))
        lim = sp.limit(resid * r ** 6, r, sp.oo)
        ctx.check(lim == 0, "R4", en, pne, "pair_nuclear_energy", f"{method}, XH={xh}: corrections",
                  f"{method}, X-H={xh}: E_nuc - Z_i Z_j gamma = o(r^-6) (exponential / Gaussian corrections)",
                  f"{method}, X-H={xh}: the core-core correction terms decay like r^6 * resid -> {lim}; a long-range tail is added to the interaction of neutral fragments")
    ctx.floor("R4", 60 + 1 + 2 + 12)
    # ------------------------------------------------------------------ R5
    bas = repo.mod(BASICS)
    keepers = []
    for qual, func in bas.functions.items():
        # functions that recompute rij/xij from stored idxi/idxj (the pair list itself is not rebuilt)
        stores = {norm(t) for st in ast.walk(func) if isinstance(st, ast.Assign) for t in st.targets}
        if any(t.endswith(".rij") for t in stores) and any(t.endswith(".xij") for t in stores) and not any(t.endswith(".idxi") for t in stores) \
                and any(isinstance(x, ast.Attribute) and x.attr == "idxi" for x in ast.walk(func)):
            keepers.append((qual, func))
    for qual, func in keepers:
        short_name = qual.split(".")[-1]
        for cq, cf in bas.functions.items():
            for c in calls_in(cf):
                if callee_attr(c) != short_name or bas.qualname_of(c) != cq:
                    continue
                from ..guards import controlling as _ctl
                ctrl = _ctl(bas, bas.enclosing_stmt(c), stop=cf)
                cdefs = _defs(cf)
                conj = []
                for a, pol, _ in ctrl:
                    if pol and isinstance(a, ast.Name) and len(cdefs.get(a.id, [])) == 1:
                        v = cdefs[a.id][0]
                        conj += list(v.values) if isinstance(v, ast.BoolOp) and isinstance(v.op, ast.And) else [v]
                    else:
                        conj.append(a if pol else ast.UnaryOp(op=ast.Not(), operand=a))
                texts = [norm(x).replace(" ", "") for x in conj]
                cutoff_guard = any("outercutoff" in t or "pair_outer_cutoff" in t for t in texts)
                no_kwargs = "notkwargs" in texts
                if not no_kwargs:
                    # the condition implies `not kwargs` iff it is false whenever kwargs is non-empty (three-valued evaluation, whatever the spelling)
                    from .c18 import three_val as _tv
                    no_kwargs = any(_tv(x_, {"kwargs": True}, None, cdefs) is False for x_ in conj)
                # with `not kwargs` the path is dead iff every public caller hands a keyword down that no signature on the way absorbs
                dead = False
                why = ""
                if no_kwargs:
                    es = repo.mod("seqm/ElectronicStructure.py")
                    ef = es.func("Electronic_Structure.forward")
                    chain_params = set()
                    for q_ in ("Force.forward", "Energy.forward"):
                        fn_ = bas.func(q_)
                        chain_params |= {a.arg for a in fn_.args.args + fn_.args.kwonlyargs}
                    sites = [c2 for c2 in calls_in(ef) if callee_attr(c2) == "conservative_force"]
                    leftover = [sorted({k.arg for k in c2.keywords if k.arg} - chain_params) for c2 in sites]
                    dead = bool(sites) and all(leftover)
                    why = f"every conservative_force call passes keyword(s) {leftover} that Force.forward / Energy.forward do not name, so **kwargs is never empty"
                ctx.check(cutoff_guard or dead, "R5", bas, c, cq, f"{short_name}(...) under {texts[:3]}",
                          f"{qual} (keeps the pair list, refreshes only rij/xij) is " + ("restricted to the infinite cutoff" if cutoff_guard else f"unreachable from Electronic_Structure.forward: {why}"),
                          f"{cq} can take the {short_name} shortcut (conditions {texts}) which keeps the pair list of an earlier geometry and only refreshes distances: with a finite "
                          f"pair_outer_cutoff, pairs that cross the cutoff during MD stay ignored / stay included")
    if not keepers:
        ctx.ok("R5", "seqm/basics.py", "no geometry refresh keeps a stale pair list")
    ctx.note("Energy._refresh_md_geometry keeps the pair list and only refreshes xij/rij; it is unreachable through "
             "Electronic_Structure.forward at this commit because xl_bomd_params always arrives as a keyword, which disables the static path.")
