"""C02 -- energies are invariant and vector outputs covariant under rigid motions (structural clauses)."""
from __future__ import annotations

import ast

from ..exprs import NotConst, fold, to_sympy
from ..guards import controlling
from ..loader import AnalysisError, attr_chain, call_name, callee_attr, calls_in, names_in, norm, short

LEVEL = "other"
TE = "seqm/seqm_functions/two_elec_two_center_int.py"
RD = "seqm/seqm_functions/RotationMatrixD.py"
EXPLANATION = (
    "R1 no piecewise-constant chart in the builders of the local->molecular frame rotation: a three-point dependence analysis "
    "(constant / piecewise-constant / smooth in the bond vector) over rotate_with_quaternion and GenerateRotationMatrix finds "
    "every place where, under a condition on the bond vector, a smooth value is replaced by a constant one (masked store, "
    "torch.where, multiplication by a mask). Such a chart has the right value but zero derivative, so forces stop being "
    "covariant exactly on the singular set while energies stay invariant - the failure C02 describes. The two charts present "
    "today (quaternion antipode v = -x, d-orbital z-pole) are recorded known findings; any new chart site, and any enlargement "
    "of a chart's region (threshold above 1e-6 in double precision), is a violation. R2 translation invariance: every read of "
    "molecule.coordinates in the package is a difference of coordinates, layout/meta data, or one of the inventoried "
    "origin-dependent consumers (dipole of an ion, opt-in confining potential, MD kinematics, file output). "
    "Orthogonality of the 100-component integral rotation is not decided."
)
ASSUMPTIONS = ["local-frame integrals are axially symmetric about the bond, so any proper frame with R v = x gives the same molecular-frame integrals"]
TRUSTED = ["dependence lattice {const, piecewise-const, smooth}"]

C, PW, SM = 0, 1, 2   # constant / piecewise constant (zero derivative) / smooth dependence on the argument

COORD_OK = {
    ("seqm/basics.py", "Parser.forward"): "pair vectors: coordinate differences only",
    ("seqm/basics.py", "Energy._refresh_md_geometry"): "pair vectors: coordinate differences only",
    ("seqm/basics.py", "Energy._prepare_molecule_inputs"): "handed to the user's parameter callable (user code)",
    ("seqm/dynamics/xlbomd.py", "EnergyXL.forward"): "handed to the user's parameter callable (user code)",
    ("seqm/seqm_functions/make_dm_guess.py", "*"): "handed to the user's parameter callable (user code)",
    ("seqm/Molecule.py", "*"): "storage / user parameter callable",
    ("seqm/seqm_functions/dipole.py", "*"): "dipole: origin dependent for ions by definition (C02/C14 say so), translation invariant for neutral molecules",
    ("seqm/seqm_functions/spherical_pot_force.py", "*"): "opt-in confining potential about the origin (off by default)",
    ("seqm/dynamics/tdc_hamiltonian_fd.py", "*"): "finite-difference displacement along velocities: differences of displaced geometries",
    ("seqm/seqm_functions/dispersion_am1_fs1.py", "*"): "pairwise distances (differences) for the dispersion correction",
    ("seqm/seqm_functions/normal_modes.py", "*"): "Hessian w.r.t. coordinates",
    ("seqm/seqm_functions/save_xyz.py", "*"): "file output",
    ("seqm/optimization/geometry.py", "*"): "external optimiser interface / file output",
    ("seqm/MolecularDynamics.py", "*"): "MD kinematics, COM handling, output",
    ("seqm/NonadiabaticDynamics.py", "*"): "MD kinematics and previous-geometry bookkeeping",
}


class Dep:
    def __init__(self, func, param):
        self.env = {param: SM}
        self.func = func
        for _ in range(6):
            changed = False
            for st in ast.walk(func):
                if isinstance(st, ast.Assign):
                    v = self.of(st.value)
                    for t in st.targets:
                        names = []
                        base = t
                        masked = False
                        if isinstance(t, ast.Tuple):
                            names = [e.id for e in t.elts if isinstance(e, ast.Name)]
                        else:
                            while isinstance(base, ast.Subscript):
                                base = base.value
                                masked = True
                            if isinstance(base, ast.Name):
                                names = [base.id]
                        for nm in names:
                            cur = self.env.get(nm, C)
                            new = max(cur, v) if masked or nm in self.env else v
                            new = max(cur, new)
                            if new != cur or nm not in self.env:
                                self.env[nm] = new
                                changed = True
            if not changed:
                break

    def of(self, e) -> int:
        if e is None or isinstance(e, ast.Constant):
            return C
        if isinstance(e, ast.Name):
            return self.env.get(e.id, C)
        if isinstance(e, ast.Attribute):
            if e.attr in ("shape", "dtype", "device"):
                return C
            return self.of(e.value)
        if isinstance(e, ast.Subscript):
            return max(self.of(e.value), PW if self.of(e.slice) > C else C) if False else self.of(e.value)
        if isinstance(e, ast.Compare):
            return PW if max([self.of(e.left)] + [self.of(c) for c in e.comparators]) > C else C
        if isinstance(e, ast.UnaryOp):
            return self.of(e.operand)
        if isinstance(e, ast.BinOp):
            return max(self.of(e.left), self.of(e.right))
        if isinstance(e, ast.BoolOp):
            return max(self.of(v) for v in e.values)
        if isinstance(e, (ast.Tuple, ast.List)):
            return max([self.of(x) for x in e.elts] or [C])
        if isinstance(e, ast.IfExp):
            return max(self.of(e.body), self.of(e.orelse))
        if isinstance(e, ast.Call):
            cn = call_name(e) or ""
            args = [self.of(a) for a in e.args] + [self.of(k.value) for k in e.keywords]
            if isinstance(e.func, ast.Attribute) and not (isinstance(e.func.value, ast.Name) and e.func.value.id in ("torch", "np", "math")):
                args.append(self.of(e.func.value))
            m = max(args or [C])
            if cn == "torch.where" and len(e.args) == 3:
                a, b = self.of(e.args[1]), self.of(e.args[2])
                if max(a, b) <= PW:
                    return PW if self.of(e.args[0]) > C or max(a, b) == PW else C
                return SM
            if cn in ("torch.zeros_like", "torch.ones_like", "torch.zeros", "torch.ones", "torch.empty", "torch.empty_like", "torch.eye", "torch.tensor", "torch.full"):
                return C
            if cn in ("torch.sign", "torch.floor", "torch.ceil", "torch.round", "torch.heaviside") or callee_attr(e) in ("sign", "floor", "ceil", "round", "long", "int", "bool"):
                return PW if m > C else C
            return m
        return C


def _chart_sites(mod, func, param):
    dep = Dep(func, param)
    sites = []
    mask_defs = {st.targets[0].id: st.value for st in ast.walk(func) if isinstance(st, ast.Assign) and isinstance(st.targets[0], ast.Name)
                 and (isinstance(st.value, ast.Compare) or (isinstance(st.value, ast.UnaryOp) and isinstance(st.value.op, ast.Invert))
                      or (isinstance(st.value, ast.BinOp) and isinstance(st.value.op, (ast.BitAnd, ast.BitOr)))) and dep.of(st.value) == PW}

    def cond_text(c):
        if isinstance(c, ast.UnaryOp) and isinstance(c.op, ast.Invert):
            return cond_text(c.operand)
        if isinstance(c, ast.Name) and c.id in mask_defs:
            return norm(mask_defs[c.id])
        if isinstance(c, ast.Call) and callee_attr(c) in ("unsqueeze", "reshape", "view", "expand_as", "to") and isinstance(c.func, ast.Attribute):
            return cond_text(c.func.value)
        return norm(c)
    for st in ast.walk(func):
        # (a) masked store
        if isinstance(st, ast.Assign) and isinstance(st.targets[0], ast.Subscript):
            t = st.targets[0]
            sl = t.slice
            elts = sl.elts if isinstance(sl, ast.Tuple) else [sl]
            masks = [e for e in elts if dep.of(e) == PW and (isinstance(e, ast.Name) and e.id in mask_defs or isinstance(e, (ast.Compare, ast.UnaryOp)))]
            if masks and isinstance(t.value, ast.Name):
                before = dep.env.get(t.value.id, C)
                rhs = dep.of(st.value)
                # what the container held before this store, excluding this store's own contribution
                others = [dep.of(s.value) for s in ast.walk(func) if isinstance(s, ast.Assign) and s is not st and
                          any(_base_name(tt) == t.value.id for tt in s.targets)]
                base_lvl = max(others or [C])
                if (rhs == SM) != (base_lvl == SM):
                    sites.append((st, cond_text(masks[0]), "masked store"))
        # (b) torch.where
        for c in calls_in(st) if isinstance(st, (ast.Assign, ast.Return, ast.Expr)) else []:
            if (call_name(c) or "") == "torch.where" and len(c.args) == 3 and dep.of(c.args[0]) >= PW:
                a, b = dep.of(c.args[1]), dep.of(c.args[2])
                if (a == SM) != (b == SM):
                    sites.append((c, cond_text(c.args[0]), "torch.where"))
        # (c) multiplication by a mask of a derivative/value carrying tensor
        if isinstance(st, ast.Assign) and isinstance(st.value, ast.BinOp) and isinstance(st.value.op, ast.Mult):
            for side, other in ((st.value.left, st.value.right), (st.value.right, st.value.left)):
                txt = cond_text(side)
                core = side
                while isinstance(core, ast.Call) and isinstance(core.func, ast.Attribute) and core.func.attr in ("unsqueeze", "to", "reshape", "view"):
                    core = core.func.value
                if isinstance(core, ast.UnaryOp) and isinstance(core.op, ast.Invert):
                    core = core.operand
                if isinstance(core, ast.Name) and core.id in mask_defs:
                    sites.append((st, norm(mask_defs[core.id]), "mask product"))
    # dedupe
    out, seen = [], set()
    for n, c, k in sites:
        if id(n) not in seen:
            seen.add(id(n))
            out.append((n, c, k))
    return out, dep, mask_defs


def _base_name(t):
    while isinstance(t, ast.Subscript):
        t = t.value
    return t.id if isinstance(t, ast.Name) else None


def run(ctx):
    repo = ctx.repo
    te, rd = repo.mod(TE), repo.mod(RD)
    ctx.rule("R1", "frame builders: no value replaced by a constant chart under a condition on the bond vector; chart regions stay tiny")
    ctx.rule("R2", "translation invariance: coordinates are read only as differences or by inventoried origin-dependent consumers")
    ctx.rule("R3", "pair selection is rotation invariant: the only coordinate-dependent factor of the pair list tests |r_i - r_j| (or its square) against the cutoff")
    ctx.rule("R4", "Euler-angle frame builders of the overlap routines are orthonormal on both charts: ca^2 + sa^2 = 1 and cb^2 + sb^2 = 1 in the generic branch and at the z pole")
    ctx.rule("R5", "one-centre Fock terms are isotropic in the p shell (all 10 elements equal the first-principles NDDO sums; shared with C06-R3)")
    ctx.rule("R6", "molecular-frame two-electron integrals are the tensor transform of the local ones for every orthogonal frame (all 100 + 10 packed elements); the quaternion frame is orthogonal with its first row on the bond vector on both charts")
    check_integral_rotation(ctx, "R6")
    _r4_euler_frames(ctx, repo)
    ctx.rule("R7", "the p and d blocks of the spd rotation table (GenerateRotationMatrix) are orthogonal matrices for generic, planar and axial bond directions (interpreted, exact unit vectors) [EA+]")
    from ..assembly import interpreted_d_rotation
    for ok_, msg_ in interpreted_d_rotation(repo):
        ctx.check(ok_, "R7", rd, rd.func("GenerateRotationMatrix"), "GenerateRotationMatrix", "orthogonality of the rotation blocks", msg_, msg_)
    from .c06 import one_center_first_principles
    one_center_first_principles(ctx, repo, "R5")
    from .c19 import check_pair_predicate
    check_pair_predicate(ctx, "R3")

    builders = [(te, "rotate_with_quaternion"), (rd, "GenerateRotationMatrix")]
    for m, q in builders:
        f = m.func(q)
        param = f.args.args[0].arg
        sites, dep, mask_defs = _chart_sites(m, f, param)
        groups = {}
        for n, cond, kind in sites:
            groups.setdefault(cond, []).append((n, kind))
        ctx.ok("R1", f"{m.rel}:{f.lineno} {q}", f"{q}: dependence analysis over {len(dep.env)} names, {len(sites)} chart site(s) in {len(groups)} chart(s)")
        def _canon(cond_text_):
            """spelling-independent name of a chart: the compared quantity with single-definition locals written out, the comparison, and `tol` for the threshold"""
            try:
                ce = ast.parse(cond_text_, mode="eval").body
            except SyntaxError:
                return cond_text_
            if not (isinstance(ce, ast.Compare) and len(ce.ops) == 1):
                return cond_text_
            defs_ = {}
            for st_ in ast.walk(f):
                if isinstance(st_, ast.Assign) and len(st_.targets) == 1 and isinstance(st_.targets[0], ast.Name):
                    defs_.setdefault(st_.targets[0].id, []).append(st_.value)
            import copy as _cp

            def _exp(e_, depth=0):
                class _S(ast.NodeTransformer):
                    def visit_Name(s_, n_):
                        if isinstance(n_.ctx, ast.Load) and len(defs_.get(n_.id, [])) == 1 and depth < 4 and n_.id != param:
                            return _exp(_cp.deepcopy(defs_[n_.id][0]), depth + 1)
                        return n_
                return _S().visit(_cp.deepcopy(e_))
            left_ = norm(_exp(ce.left)).replace("th.", "torch.")
            op_ = {ast.Lt: "<", ast.LtE: "<=", ast.Gt: ">", ast.GtE: ">="}.get(type(ce.ops[0]), "?")
            return f"{left_} {op_} tol"
        for cond, lst in sorted(groups.items()):
            first = lst[0][0]
            ctx.fail("R1", m, first, q, f"chart condition `{cond}` [{_canon(cond)}]",
                     f"{q}: under `{cond}` a value that depends smoothly on the bond vector is replaced by a constant ({len(lst)} site(s): "
                     f"{', '.join(sorted({k for _, k in lst}))}; first `{short(first, 60)}`): the frame has the right value there but zero derivative, so forces are "
                     f"not covariant on that set while energies stay invariant", sites=len(lst))
        # chart region radius: thresholds compared with |...| must be tiny
        thr = []
        # the names the chart masks compare against (`abs(w) < eps`), whatever they are called
        thr_names = {"eps"}
        for cond in mask_defs.values():
            for c in ast.walk(cond):
                if isinstance(c, ast.Compare):
                    for x in [c.left] + list(c.comparators):
                        if isinstance(x, ast.Name):
                            thr_names.add(x.id)

        def dtype_of(conds):
            """precision a threshold definition applies to, from the (test text, polarity) pairs it is controlled by; a negated test selects the other accepted precision"""
            pos = [c for c, p_ in conds if p_]
            neg = [c for c, p_ in conds if not p_]
            if any("float64" in c and "float32" not in c for c in pos):
                return "float64"
            if any("float32" in c and "float64" not in c for c in pos):
                return "float32"
            if any("float64" in c and "float32" not in c for c in neg):
                return "float32"
            if any("float32" in c and "float64" not in c for c in neg):
                return "float64"
            return "any"

        def arms(e, conds):
            """(conditions, constant) for every arm of a (nested) conditional expression, or every row of a module-level {dtype: tolerance} table that is looked up"""
            tab = None
            if isinstance(e, ast.Subscript) and isinstance(e.value, ast.Name):
                tab = m.globals.get(e.value.id)
            elif isinstance(e, ast.Call) and isinstance(e.func, ast.Attribute) and e.func.attr == "get" and isinstance(e.func.value, ast.Name):
                tab = m.globals.get(e.func.value.id)
            if isinstance(tab, ast.Dict):
                out_ = []
                for k_, v_ in zip(tab.keys, tab.values):
                    try:
                        out_.append((conds + [(norm(k_), True)], float(fold(v_))))
                    except (NotConst, TypeError, ValueError):
                        pass
                return out_
            if isinstance(e, ast.IfExp):
                t = norm(e.test)
                return arms(e.body, conds + [(t, True)]) + arms(e.orelse, conds + [(t, False)])
            try:
                return [(conds, float(fold(e)))]
            except (NotConst, TypeError, ValueError):
                return []
        for st in ast.walk(f):
            if isinstance(st, ast.Assign) and isinstance(st.targets[0], ast.Name) and st.targets[0].id in thr_names:
                ctrl = [(norm(a), bool(p_)) for a, p_, _ in controlling(m, st)]
                for conds, val in arms(st.value, ctrl):
                    thr.append((dtype_of(conds), val, st))
        # a threshold looked up in place (`abs(w) < TABLE[w.dtype]`)
        for cond in mask_defs.values():
            for c in ast.walk(cond):
                if isinstance(c, ast.Compare):
                    for x in [c.left] + list(c.comparators):
                        if isinstance(x, (ast.Subscript, ast.Call)):
                            for conds, val in arms(x, []):
                                thr.append((dtype_of(conds), val, cond))
        for cond in mask_defs.values():
            for c in ast.walk(cond):
                if isinstance(c, ast.Constant) and isinstance(c.value, float) and 0 < c.value < 1:
                    thr.append(("any", c.value, cond))
        for dt, val, node in thr:
            lim = 1e-3 if dt == "float32" else 1e-6
            ctx.check(val <= lim, "R1", m, node, q, f"{dt} threshold {val}",
                      f"{q}: special-case region for {dt} has radius {val:g} <= {lim:g}",
                      f"{q}: the special-case chart applies within {val:g} of the singular direction for {dt} (limit {lim:g}): bonds merely close to the axis "
                      f"(about {val ** 0.5 * 57.3:.2f} degrees) get the fixed frame instead of their true local frame - integrals become orientation dependent")
        if not thr:
            raise AnalysisError(f"{q}: chart thresholds not found")
    ctx.floor("R1", 4)

    # the builders are the only producers of frame rotations on the integral path
    n_use = 0
    for m in repo.modules("seqm"):
        for c in calls_in(m.tree):
            if callee_attr(c) in ("rotate_with_quaternion", "GenerateRotationMatrix"):
                n_use += 1
    ctx.check(n_use >= 4, "R1", te, te.func("rotate_with_quaternion"), "rotate_with_quaternion", "call sites", f"{n_use} call sites obtain their frame from the analysed builders", "frame builders unused")

    # ------------------------------------------------------------------ R2
    n = 0
    for m in repo.modules("seqm"):
        for x in ast.walk(m.tree):
            if not (isinstance(x, ast.Attribute) and x.attr == "coordinates" and isinstance(x.ctx, ast.Load)):
                continue
            par = m.parents.get(x)
            if isinstance(par, ast.Attribute) and par.attr in ("shape", "device", "dtype", "requires_grad_", "grad", "requires_grad", "dim", "numel", "size"):
                continue
            q = m.qualname_of(x)
            n += 1
            if isinstance(par, ast.Call) and any(a is x for a in par.args) and isinstance(par.func, ast.Name) and par.func.id in ("learned_parameters", "learned_params"):
                # by structure, wherever it is spelled: the geometry is an argument of the caller's own parameter callable (user code decides what it does with it)
                ctx.ok("R2", f"{m.rel}:{x.lineno} {q}", "coordinates handed to the user's parameter callable (user code)", nontrivial=False)
                continue
            key = (m.rel, q) if (m.rel, q) in COORD_OK else (m.rel, "*")
            ok = key in COORD_OK
            reason = COORD_OK.get(key, "")
            if ok and "differences only" in reason:
                # verify the difference structure: the read feeds a subtraction whose both operands derive from coordinates
                fn = m.enclosing_function(x)
                stmt = m.enclosing_stmt(x)
                diff_ok = False
                for b in ast.walk(fn):
                    if isinstance(b, ast.BinOp) and isinstance(b.op, ast.Sub):
                        l, r = norm(b.left), norm(b.right)
                        if ("coordinates" in l and "coordinates" in r) or ("xyz[" in l and "xyz[" in r):
                            diff_ok = True
                ok = diff_ok
            ctx.check(ok, "R2", m, x, q, m.enclosing_stmt(x), f"{m.rel}::{q}: coordinate read is accepted ({reason})",
                      f"`{short(m.enclosing_stmt(x), 80)}` in {q} reads absolute coordinates on a path that is not an inventoried origin-dependent consumer: "
                      f"results may change under translation of the molecule")
    if n < 30:
        raise AnalysisError(f"only {n} coordinate reads found")


def _r4_euler_frames(ctx, repo):
    """The Slater-Koster rotation of the overlap blocks uses (ca, sa) = (cos, sin) of the azimuth and (cb, sb) of the polar angle of the unit
    bond vector.  Each is read on two charts -- generic (x^2 + y^2 > 0) and z pole -- from its masked store / torch.where / clamp definition;
    on both charts the pairs must be unit vectors, otherwise the rotated overlap block is not an orthogonal transform of the local one
    (pi overlaps are scaled or dropped for bonds on the z axis)."""
    import sympy as sp
    # decided by value: the routines are interpreted (sa.npsym) on exact unit vectors -- generic directions, the xy plane, both z poles; the symbolic two-chart reading below
    # is consulted only when a routine cannot be interpreted
    from ..assembly import interpreted_euler_frames
    try:
        res = interpreted_euler_frames(repo)
    except AnalysisError as e:
        ctx.note(f"Euler-angle frame builders could not be interpreted ({str(e)[:100]}); symbolic two-chart reading used")
        res = None
    if res is not None:
        if len(res) < 2:
            raise AnalysisError("Euler-angle frame builders not found")
        for rel, qual, line, ok, msg, nv in res:
            m = repo.mod(rel)
            ctx.check(ok, "R4", m, m.func(qual), qual, "direction cosines",
                      f"{qual}: (sb ca, sb sa, cb) is the bond direction and (ca, sa) a unit vector for {nv} exact unit vectors incl. both z poles and the xy plane",
                      f"{qual}: {msg}")
            ctx.ok("R4", f"{rel}:{line} {qual}", "pole chart decided with the generic chart (same interpreted run)", nontrivial=False)
        return
    x, y, z = sp.symbols("x y z", real=True)
    t = sp.Symbol("t", real=True)       # sign(z) at the pole, t^2 = 1
    n = 0
    for rel in ("seqm/seqm_functions/diat_overlapD.py", "seqm/seqm_functions/diat_overlap.py"):
        if not repo.has(rel):
            continue
        m = repo.mod(rel)
        for qual, f in m.functions.items():
            names = {st.targets[0].id for st in ast.walk(f) if isinstance(st, ast.Assign) and len(st.targets) == 1 and isinstance(st.targets[0], ast.Name)}
            if not {"ca", "sa", "cb", "sb"} <= names or m.qualname_of(f.body[0]) != qual:
                continue
            vals = {}
            for chart in ("generic", "pole"):
                env = {}
                xy_s = sp.sqrt(x ** 2 + y ** 2)

                def ev(e, chart=chart, env=env):
                    if isinstance(e, ast.Constant):
                        return sp.nsimplify(e.value)
                    if isinstance(e, ast.Name):
                        if e.id in env:
                            return env[e.id]
                        raise AnalysisError(f"frame: unbound {e.id}")
                    if isinstance(e, ast.UnaryOp) and isinstance(e.op, ast.USub):
                        return -ev(e.operand)
                    if isinstance(e, ast.BinOp):
                        a, b = ev(e.left), ev(e.right)
                        return {ast.Add: a + b, ast.Sub: a - b, ast.Mult: a * b, ast.Div: a / b}.get(type(e.op)) if type(e.op) in (ast.Add, ast.Sub, ast.Mult, ast.Div) else _bad(e)
                    if isinstance(e, ast.Subscript):
                        base = norm(e.value)
                        idx = e.slice.elts if isinstance(e.slice, ast.Tuple) else [e.slice]
                        last = idx[-1]
                        if base == "xij" and isinstance(last, ast.Constant) and last.value in (0, 1, 2):
                            return (x, y, z)[last.value]
                        return ev(e.value)          # mask view
                    if isinstance(e, ast.Call):
                        nm = (call_name(e) or "")
                        at = callee_attr(e)
                        if nm.endswith(".norm") and e.args and "xij[..., :2]" in norm(e.args[0]):
                            return xy_s
                        if nm.endswith(".where") and len(e.args) == 3:
                            return ev(e.args[1] if chart == "generic" else e.args[2])
                        if nm.endswith(".tensor") and e.args:
                            return ev(e.args[0])
                        if nm.endswith(".zeros_like"):
                            return sp.Integer(0)
                        if nm.endswith(".ones_like"):
                            return sp.Integer(1)
                        if at in ("clone", "detach", "contiguous") and isinstance(e.func, ast.Attribute):
                            return ev(e.func.value)
                        if at in ("clamp_min", "clamp") and isinstance(e.func, ast.Attribute):
                            lo = e.args[0] if e.args else next((k.value for k in e.keywords if k.arg == "min"), None)
                            return ev(e.func.value) if chart == "generic" else ev(lo)
                        if nm.endswith(".clamp") or nm.endswith(".clamp_min"):
                            lo = e.args[1] if len(e.args) > 1 else next((k.value for k in e.keywords if k.arg == "min"), None)
                            return ev(e.args[0]) if chart == "generic" else ev(lo)
                        if nm.endswith(".sqrt") and e.args:
                            return sp.sqrt(ev(e.args[0]))
                    raise AnalysisError(f"frame: `{short(norm(e), 50)}`")
                for st in f.body:
                    if not (isinstance(st, ast.Assign) and len(st.targets) == 1):
                        continue
                    tg = st.targets[0]
                    try:
                        if isinstance(tg, ast.Name):
                            if tg.id == "tmp":
                                env["tmp"] = t          # sign(z): +-1 on the pole chart, never used on the generic chart
                                continue
                            env[tg.id] = ev(st.value)
                        elif isinstance(tg, ast.Subscript) and isinstance(tg.value, ast.Name) and tg.value.id in ("ca", "sa", "cb", "sb"):
                            # masked store: applies on the generic chart (the mask is xy >= eps)
                            if chart == "generic":
                                env[tg.value.id] = ev(st.value)
                    except AnalysisError:
                        if isinstance(tg, ast.Name):
                            env.pop(tg.id, None)
                    if all(k in env for k in ("ca", "sa", "cb", "sb")) and isinstance(tg, ast.Name) and tg.id == "sb":
                        pass
                vals[chart] = {k: env.get(k) for k in ("ca", "sa", "cb", "sb")}
            for chart, v in vals.items():
                if any(v[k] is None for k in v):
                    raise AnalysisError(f"{qual}: frame angles not interpretable on the {chart} chart ({v})")
                if chart == "generic":
                    az = sp.simplify(v["ca"] ** 2 + v["sa"] ** 2 - 1)
                    po = sp.simplify((v["cb"] ** 2 + v["sb"] ** 2 - 1).subs(z ** 2, 1 - x ** 2 - y ** 2))
                else:
                    sub = {x: 0, y: 0, z: t}
                    az = sp.simplify((v["ca"] ** 2 + v["sa"] ** 2 - 1).subs(sub).subs(t ** 2, 1))
                    po = sp.simplify((v["cb"] ** 2 + v["sb"] ** 2 - 1).subs(sub).subs(t ** 2, 1))
                n += 1
                ctx.check(az == 0 and po == 0, "R4", m, f, qual, f"{chart} chart", f"{qual}: (ca, sa) and (cb, sb) are unit vectors on the {chart} chart",
                          f"{qual}: on the {chart} chart ca^2 + sa^2 - 1 = {az}, cb^2 + sb^2 - 1 = {po} (ca = {v['ca']}, sa = {v['sa']}, cb = {v['cb']}, sb = {v['sb']}): the frame is "
                          f"singular there, pi-type overlaps of a bond on the z axis are scaled or dropped and the energy is not rotation invariant")
    expected = 2 * sum(1 for rel in ("seqm/seqm_functions/diat_overlapD.py", "seqm/seqm_functions/diat_overlap.py") if repo.has(rel))
    if n < max(2, expected):
        raise AnalysisError(f"Euler-angle frame builders: {n} of {expected} (routine, chart) readings recognised")


def _bad(e):
    raise AnalysisError(f"frame: operator {norm(e)}")


def _frame_symbolic(ctx, rid, m):
    """symbolic reading of the quaternion frame from its nine stores (consulted only when the routine cannot be interpreted)"""
    import sympy as sp
    # ---- the frame itself: orthogonal, first row = bond vector, on the generic chart and on the antipodal chart
    q = m.func("rotate_with_quaternion")
    vx, vy, vz = sp.symbols("vx vy vz", real=True)
    env = {}
    rot = {}
    for st in q.body:
        if isinstance(st, ast.Return):
            break
        if isinstance(st, ast.Assign) and isinstance(st.targets[0], ast.Subscript) and norm(st.targets[0].value) == "rot":
            sl = st.targets[0].slice.elts
            i, j = sl[-2].value, sl[-1].value
            qy, qz, qw = sp.symbols("qy qz qw", real=True)
            rot[(i, j)] = to_sympy(st.value, {"qy": qy, "qz": qz, "qw": qw}, {})
    if len(rot) != 9:
        raise AnalysisError(f"rotate_with_quaternion: {len(rot)} rotation elements interpreted")
    qy, qz, qw = sp.symbols("qy qz qw", real=True)
    Rm = sp.Matrix(3, 3, lambda i, j: rot[(i, j)])
    # generic chart: q_raw = (0, vz, -vy, 1 + vx) / N
    N2 = vz ** 2 + vy ** 2 + (1 + vx) ** 2
    gen = {qy: vz / sp.sqrt(N2), qz: -vy / sp.sqrt(N2), qw: (1 + vx) / sp.sqrt(N2)}
    Rg = Rm.subs(gen)
    unit = {vz ** 2: 1 - vx ** 2 - vy ** 2}
    orth = sp.simplify((Rg * Rg.T - sp.eye(3)).subs(unit))
    row0 = [sp.simplify(sp.simplify(Rg[0, k]).subs(unit) - (vx, vy, vz)[k]) for k in range(3)]
    # numeric fallback at a rational unit vector (Pythagorean quadruple 2,3,6,7)
    pt = {vx: sp.Rational(2, 7), vy: sp.Rational(3, 7), vz: sp.Rational(6, 7)}
    orth_ok = orth == sp.zeros(3, 3) or (Rg.subs(pt) * Rg.subs(pt).T - sp.eye(3)) == sp.zeros(3, 3)
    row_ok = all(x == 0 for x in row0) or all(sp.simplify(Rg[0, k].subs(pt) - (vx, vy, vz)[k].subs(pt)) == 0 for k in range(3))
    # the q_raw definition in the code must be the one assumed here
    u1 = [st for st in q.body if isinstance(st, ast.Assign) and norm(st.targets[0]).replace(" ", "") == "u[:,1]"]
    u2 = [st for st in q.body if isinstance(st, ast.Assign) and norm(st.targets[0]).replace(" ", "") == "u[:,2]"]
    wdef = [st for st in q.body if isinstance(st, ast.Assign) and norm(st.targets[0]) == "w_"]
    qdef_ok = bool(u1 and u2 and wdef) and norm(u1[0].value).replace(" ", "") == "v[:,2]" and norm(u2[0].value).replace(" ", "") == "-v[:,1]" \
        and norm(wdef[0].value).replace(" ", "") == "1.0+v[...,0]"
    ctx.check(qdef_ok and orth_ok and row_ok, rid, m, q, "rotate_with_quaternion", "generic chart", "generic chart: rot is orthogonal and its first row is the unit bond vector",
              f"generic chart: rot rot^T - 1 = {orth}, first row - v = {row0}, q_raw definition recognised = {qdef_ok}")
    pole = {qy: 0, qz: 1, qw: 0}
    fallback = [st for st in q.body if isinstance(st, ast.Assign) and norm(st.targets[0]) == "q_raw[mask]"]
    fb_ok = bool(fallback) and "[0.0, 0.0, 1.0, 0.0]" in norm(fallback[0].value)
    Rp = Rm.subs(pole)
    ctx.check(fb_ok and Rp * Rp.T == sp.eye(3) and list(Rp[0, :]) == [-1, 0, 0], rid, m, q, "rotate_with_quaternion", "antipodal chart",
              "antipodal chart: rot = diag(-1, -1, 1) is orthogonal with first row -x (the bond vector there)", f"antipodal chart gives rot = {Rp}")


def check_integral_rotation(ctx, rid):
    """(shared with C06) see sa/rotint.py"""
    import random
    import sympy as sp
    from .. import multipole as mp
    from .. import rotint
    repo = ctx.repo
    m = repo.mod(TE)
    f = m.func("w_withquaternion")
    ri = [sp.Symbol(f"ri{k}") for k in range(22)]
    rx = [sp.Symbol(f"rx{k}") for k in range(4)]
    R = [[sp.Symbol(f"R{a}{b}") for b in range(3)] for a in range(3)]
    RX = [[sp.Symbol(f"X{a}{b}") for b in range(3)] for a in range(3)]
    w, wxh, combos = rotint.interpret_rotation(f, ri, rx, R, RX, repo=repo)
    if sorted(w) != list(range(100)) or sorted(wxh) != list(range(10)):
        raise AnalysisError(f"w_withquaternion: {len(w)} / {len(wxh)} packed elements interpreted")
    conv = (-1, -1)
    loc = ["S", "O", "P", "Q"]
    bad_total = {}
    for trial in range(2):
        rng = random.Random(17 + trial)
        r, S = mp.symbols()
        vals = {s_: sp.Rational(rng.randint(5, 40), 11) for s_ in [r] + list(S.values())}
        tab = mp.table(*conv)
        rinum = [sp.N(t_.subs(vals), 40) for t_ in tab]
        L = rotint.oracle_tensor(vals, conv)
        Rm = rotint.random_rotation(rng)
        sub = {ri[k]: rinum[k] for k in range(22)}
        sub.update({rx[k]: rinum[k] for k in range(4)})
        for a in range(3):
            for b in range(3):
                sub[R[a][b]] = Rm[a, b]
                sub[RX[a][b]] = Rm[a, b]

        def T(mu, a):
            if mu == 0:
                return 1 if a == 0 else 0
            return 0 if a == 0 else Rm[a - 1, mu - 1]

        def transformed(kk, ll, mm, nn, only_ss_b=False):
            tot = 0
            for a in range(4):
                ta = T(kk, a)
                if ta == 0:
                    continue
                for b in range(4):
                    tb = T(ll, b)
                    if tb == 0:
                        continue
                    for c in range(4):
                        tc = T(mm, c)
                        if tc == 0:
                            continue
                        for d in range(4):
                            td = T(nn, d)
                            if td == 0:
                                continue
                            tot += ta * tb * tc * td * L[(rotint.pair_kind(loc[a], loc[b]), rotint.pair_kind(loc[c], loc[d]))]
            return tot
        ixh = 0
        for i, (kk, ll, mm, nn) in enumerate(combos):
            code = sp.N(w[i].subs(sub), 40)
            if abs(code - transformed(kk, ll, mm, nn)) > sp.Float("1e-25"):
                bad_total.setdefault(("w", i, (kk, ll, mm, nn)), 0)
            if mm == 0 and nn == 0:
                codex = sp.N(wxh[ixh].subs(sub), 40)
                if abs(codex - transformed(kk, ll, 0, 0)) > sp.Float("1e-25"):
                    bad_total.setdefault(("wXH", ixh, (kk, ll, 0, 0)), 0)
                ixh += 1
    names = "s x y z".split()
    for (arr, i, c) in sorted(bad_total):
        ctx.fail(rid, m, f, "w_withquaternion", f"{arr}[{i}] = ({names[c[0]]}{names[c[1]]}|{names[c[2]]}{names[c[3]]})",
                 f"{arr}[{i}] = ({names[c[0]]}{names[c[1]]}|{names[c[2]]}{names[c[3]]}) is not sum_abcd T T T T (ab|cd)_local for an orthogonal frame: the rotated two-electron "
                 f"integrals are not the tensor transform of the local ones, energies depend on the orientation of the molecule")
    ctx.ok(rid, "seqm/seqm_functions/two_elec_two_center_int.py:w_withquaternion",
           f"{100 + 10 - len(bad_total)} of 110 packed molecular-frame integrals equal the tensor transform of the point-charge local tensor at 2 random exact rotations (40 digits)")
    for _ in range(109 - len(bad_total)):
        ctx.ok(rid, "seqm/seqm_functions/two_elec_two_center_int.py:w_withquaternion", "packed element equals the tensor transform", nontrivial=True)
    # ---- the frame itself, by value: rotate_with_quaternion is interpreted (sa.npsym) on exact unit vectors; rot must be orthogonal with first row = the bond vector on the
    # generic chart, and diag(-1, -1, 1) exactly at the antipode of x; the symbolic reading of the nine stores is the fallback
    q = m.func("rotate_with_quaternion")
    import numpy as _np
    from ..npsym import NpSym as _NpSym, Raised as _Raised
    try:
        R_ = sp.Rational
        vecs_ = [(R_(2, 7), R_(3, 7), R_(6, 7)), (R_(-2, 3), R_(1, 3), R_(2, 3)), (R_(3, 5), 0, R_(-4, 5)), (0, 1, 0), (1, 0, 0), (-1, 0, 0)]
        V_ = _np.array([[sp.sympify(c_) for c_ in v_] for v_ in vecs_], dtype=object)
        res_ = _NpSym(ctx.repo).call_function(m, q, [V_])
        rot_ = _np.asarray(res_[0] if isinstance(res_, tuple) else res_)
        okg, oka, msgf = True, True, ""
        for k_, v_ in enumerate(vecs_):
            Rk = sp.Matrix(3, 3, lambda i_, j_: sp.simplify(rot_[k_, i_, j_]))
            if k_ < len(vecs_) - 1:
                if sp.simplify(Rk * Rk.T - sp.eye(3)) != sp.zeros(3, 3) or any(sp.simplify(Rk[0, c_] - sp.sympify(v_[c_])) != 0 for c_ in range(3)):
                    okg, msgf = False, f"for the unit bond vector {tuple(str(x) for x in v_)} rot rot^T - 1 = {sp.simplify(Rk * Rk.T - sp.eye(3))}, first row = {list(Rk[0, :])}"
            elif Rk != sp.diag(-1, -1, 1):
                oka, msgf = False, f"at the antipode (-1, 0, 0) rot = {Rk}"
        ctx.check(okg, rid, m, q, "rotate_with_quaternion", "generic chart", "generic chart: rot is orthogonal and its first row is the unit bond vector (interpreted at 5 exact unit vectors)",
                  f"generic chart: {msgf}")
        ctx.check(oka, rid, m, q, "rotate_with_quaternion", "antipodal chart", "antipodal chart: rot = diag(-1, -1, 1) is orthogonal with first row -x (the bond vector there)",
                  f"antipodal chart: {msgf}")
    except (AnalysisError, _Raised) as e_:
        ctx.note(f"rotate_with_quaternion could not be interpreted ({str(e_)[:100]}); symbolic reading of the stores used") if hasattr(ctx, "note") else None
        _frame_symbolic(ctx, rid, m)
