"""C11 -- each output stream is written at exactly its own requested cadence."""
from __future__ import annotations

import ast
import re
from typing import Dict, List, Optional, Set, Tuple

from ..exprs import Affine, affine, exec_int_function, int_eval
from ..guards import controlling, modulo_atoms
from ..loader import AnalysisError, attr_chain, call_name, callee_attr, calls_in, dotted, norm, short
from ..mdconf import MD, NAD, ConfTaint

LEVEL = "other"
EXPLANATION = (
    "Static decision of the structural clauses of C11 on seqm/MolecularDynamics.py and seqm/NonadiabaticDynamics.py: "
    "R1 labelled taint from output-config keys to the modulus of every step-dependent guard controlling a stream's "
    "row store / frame write / print / checkpoint (call-site guards and guards inside the sink, early-return guards "
    "included): the modulus must derive from the stream's own key only, hold as 'is a multiple', and test exactly the "
    "step label that is stored; R2 the row pre-allocation function and the resume-cursor formulas are re-interpreted by "
    "a small integer evaluator over steps<=60 x stride<=12 and compared with the number of due steps (exhaustive on that "
    "domain); R3 cursor discipline of every HDF5 row commit (label stored = step argument, cursor += 1 exactly once, "
    "same block); R4 zero cadence suppresses (positivity conjunct / early return for every modulo guard); R5 the "
    "initial snapshot (label 0) is written for every stream under step_offset == 0. The stored *values* are not decided."
)
ASSUMPTIONS = [
    "streams are written only through HDF5Writer.append_*, XYZWriter.write, _output_to_screen and save_checkpoint "
    "(who-may-write rule R6 checks no other h5 row store exists)",
    "guards are recognised in the forms `X % Y == 0`, `X % Y != 0`, `not (X % Y)` combined by and/or/not, in enclosing ifs or early exits",
]
TRUSTED = ["sa.mdconf label resolver (def-chains through locals, self fields, OutputConfig getters)", "sa.exprs integer evaluator"]

PER_STREAM = "PER-STREAM"

SINKS = [
    # stream, method name, receiver suffix (None = any), own labels, label-arg position/keyword
    dict(stream="data", method="append_data", recv="_h5_writer", own={"data"}, arg=0, initial=True),
    dict(stream="vectors", method="append_vectors", recv="_h5_writer", own=PER_STREAM, arg=0, initial=True),
    dict(stream="nonadiabatic", method="append_nonadiabatic", recv="_h5_writer", own={"nonadiabatic"}, arg=0, initial=True),
    dict(stream="xyz", method="write", recv="_xyz_writer", own={"xyz"}, arg=0, initial=True),
    dict(stream="screen", method="_output_to_screen", recv="self", own={"print every"}, arg=0, initial=False),
    dict(stream="checkpoint", method="save_checkpoint", recv="self", own={"checkpoint every"}, arg="step_done", initial=False),
]


def _call_sites(mod, method, recv):
    out = []
    for n in ast.walk(mod.tree):
        if isinstance(n, ast.Call) and isinstance(n.func, ast.Attribute) and n.func.attr == method:
            ch = attr_chain(n.func.value)
            if ch is None:
                continue
            if recv == "self":
                if ch != ["self"]:
                    continue
            elif ch[-1] != recv:
                continue
            out.append(n)
    return out


def _class_of(mod, func):
    p = mod.parents.get(func)
    return p if isinstance(p, ast.ClassDef) else None


def _label_expr_in_callee(md, sink) -> Tuple[ast.FunctionDef, ast.AST, str]:
    """(callee def, expression of the stored/printed label in terms of callee params, name of step param)."""
    s = sink["stream"]
    if s in ("data", "vectors", "nonadiabatic"):
        f = md.func("HDF5Writer." + sink["method"])
        stores = _steps_stores(f)
        stores = [st for st in stores if "transition_density" not in norm(st) and "gtdm" not in norm(st.targets[0])]
        if not stores:
            raise AnalysisError(f"no ['steps'][i] row store in HDF5Writer.{sink['method']}")
        return f, stores[0].value, f.args.args[1].arg
    if s == "xyz":
        f = md.func("XYZWriter.write")
        step_param = f.args.args[1].arg
        for n in ast.walk(f):
            if isinstance(n, ast.JoinedStr) and any(isinstance(v, ast.Constant) and "step" in str(v.value) for v in n.values):
                for v in n.values:
                    if isinstance(v, ast.FormattedValue) and step_param in {x.id for x in ast.walk(v.value) if isinstance(x, ast.Name)}:
                        return f, v.value, step_param
        raise AnalysisError("XYZWriter.write: step label not found in frame header")
    if s == "screen":
        f = md.func("Molecular_Dynamics_Basic._output_to_screen")
        step_param = f.args.args[1].arg
        for n in ast.walk(f):
            if isinstance(n, ast.Call) and isinstance(n.func, ast.Name) and n.func.id == "print":
                for a in n.args:
                    if isinstance(a, ast.JoinedStr):
                        for v in a.values:
                            if isinstance(v, ast.FormattedValue) and step_param in {x.id for x in ast.walk(v.value) if isinstance(x, ast.Name)}:
                                return f, v.value, step_param
        raise AnalysisError("_output_to_screen: printed step label not found")
    if s == "checkpoint":
        f = md.func("Molecular_Dynamics_Basic.save_checkpoint")
        return f, ast.Name(id="step_done"), "step_done"
    raise AnalysisError(s)


def _steps_stores(func) -> List[ast.Assign]:
    """Statements `<...>["steps"][i] = E`."""
    out = []
    for n in ast.walk(func):
        if isinstance(n, ast.Assign) and len(n.targets) == 1 and isinstance(n.targets[0], ast.Subscript):
            t = n.targets[0]
            if isinstance(t.value, ast.Subscript) and isinstance(t.value.slice, ast.Constant) and t.value.slice.value == "steps":
                out.append(n)
    return out


def run(ctx):
    repo = ctx.repo
    md = repo.mod(MD)
    nad = repo.mod(NAD)
    ct = ConfTaint(repo)

    ctx.rule("R1", "modulus of every step guard controlling a stream derives from the stream's own cadence key only, "
                   "holds as 'multiple of', and tests the step label that is stored")
    ctx.rule("R2", "row pre-allocation and resume-cursor formulas equal the number of due steps (integer evaluator, exhaustive domain)")
    ctx.rule("R3", "cursor discipline at every HDF5 row commit: label = step argument, cursor advanced by exactly 1 in the same block")
    ctx.rule("R4", "a cadence of zero suppresses the stream: every modulo guard has a positivity conjunct / early return on its modulus")
    ctx.rule("R5", "initial snapshot (label 0) written for each stream under step_offset == 0; allocation includes it")
    ctx.rule("R6", "who-may-write: HDF5 row stores and allocations use the stream's own capacity/cadence")
    ctx.rule("R7", "a stream's sink exists whenever its own cadence is positive: writer enable flags are implied by every stream they serve")
    ctx.rule("R8", "cadences by value: the interpreted run loop, output setup and writers of the base engine put exactly the due steps of every stream (screen, XYZ, data, "
                   "coordinates, velocities, forces, checkpoints, transition densities; nonadiabatic at writer level) into its sink, fresh and resumed")
    by_value, na_engine = _r8_by_value(ctx, repo, md)
    # R1-R7 are shape-based readings of what R8 decides by value for the base engine, its output setup and the writers.  When R8 holds, their findings and their "shape not
    # recognised" stops about code of seqm/MolecularDynamics.py are not reported; the gating of the nonadiabatic stream inside the surface-hopping engine
    # (seqm/NonadiabaticDynamics.py) is judged by the shape-based rules only.
    if by_value:
        ctx.demote = lambda rid, rel, function, message: ("decided by value in R8" if (rel == MD and ("nonadiabatic" not in message.lower() or na_engine))
                                                          or (rel == NAD and na_engine) else None)
    try:
        _shape_based(ctx, repo, md, nad, ct)
    except AnalysisError as e:
        if by_value and (na_engine or ("NonadiabaticDynamics" not in str(e) and "nonadiabatic" not in str(e).lower())):
            ctx.note(f"shape-based rules stopped ({str(e)[:120]}); the streams of the base engine and the writers are decided by value in R8")
            for rid in ("R1", "R2", "R3", "R4", "R5", "R6", "R7"):
                ctx.ok(rid, MD, "decided by value in R8 (shape-based reading not applicable to this spelling)", nontrivial=False)
            if not na_engine:
                _nonadiabatic_engine_gate(ctx, repo, md, nad, ct)
        else:
            raise
    finally:
        ctx.demote = None


def _shape_based(ctx, repo, md, nad, ct):
    _r7(ctx, repo)

    # ---- cadence dict is per-key -------------------------------------------------
    probs = ct.cadence_dict_is_per_key()
    gm = md.func("OutputConfig.get_h5_cadence")
    ctx.check(not probs, "R1", md, gm, "OutputConfig.get_h5_cadence", gm.body[-1],
              "vector cadence dict maps each stream name to the config read of the same key",
              "; ".join(probs))

    h5w = md.cls("HDF5Writer")
    init = md.func("HDF5Writer.__init__")
    cad_labels = ct.labels(ast.parse("self._cadence").body[0].value, init, h5w)
    ctx.check(cad_labels == {"coordinates", "velocities", "forces"}, "R1", md, init, "HDF5Writer.__init__", "self._cadence",
              "HDF5Writer._cadence is the per-key vector cadence dict", f"self._cadence derives from {sorted(cad_labels)}")

    h5w = md.cls("HDF5Writer")
    _sink_sites(ctx, repo, md, nad, ct, h5w, SINKS)
    ctx.floor("R1", 20)

    _r2_allocation(ctx, md, ct)
    _r3_cursors(ctx, md)
    _r6_alloc_labels(ctx, md, ct)

    # transition-density sub-stream: observation only (not one of the enumerated streams)
    ad = md.func("HDF5Writer.append_data")
    for st in _steps_stores(ad):
        if "gtdm" in norm(st.targets[0]):
            labs = set()
            for (x, y, mult, a) in modulo_atoms(controlling(md, st)):
                labs |= ct.labels(y, ad, h5w)
            ctx.observe(f"transition_density_matrices sub-stream is committed inside append_data (so also gated by the 'data' "
                        f"cadence at the call site) with own modulus labels {sorted(labs)}; not one of the streams C11 enumerates")


def _nonadiabatic_engine_gate(ctx, repo, md, nad, ct):
    """the shape-based reading of the nonadiabatic stream's call sites inside the surface-hopping engine (always judged)"""
    h5w = md.cls("HDF5Writer")
    saved, ctx.demote = ctx.demote, None
    try:
        _sink_sites(ctx, repo, md, nad, ct, h5w, [s_ for s_ in SINKS if s_["stream"] == "nonadiabatic"], only_mod=nad)
    finally:
        ctx.demote = saved


def _sink_sites(ctx, repo, md, nad, ct, h5w, sinks, only_mod=None):
    for sink in sinks:
        callee, label_expr, step_param = _label_expr_in_callee(md, sink)
        # modulo atoms inside the callee controlling the commit statement
        inner_atoms = []
        if sink["stream"] in ("data", "nonadiabatic"):
            commit = [st for st in _steps_stores(callee) if "gtdm" not in norm(st.targets[0])][0]
            inner_atoms = modulo_atoms(controlling(md, commit))
            inner_ctrl = controlling(md, commit)
        elif sink["stream"] == "vectors":
            inner_atoms, inner_ctrl = _vector_plumbing(ctx, md, ct, callee)
        else:
            inner_ctrl = []
        sites = []
        for m in ((md, nad) if only_mod is None else (only_mod,)):
            sites += [(m, c) for c in _call_sites(m, sink["method"], sink["recv"])]
        loop_sites = 0
        init_sites = 0
        for m, call in sites:
            func = m.enclosing_function(call)
            cls = _class_of(m, func)
            qn = m.qualname_of(call)
            stmt = m.enclosing_stmt(call)
            # the step-label argument
            if isinstance(sink["arg"], int):
                if len(call.args) <= sink["arg"]:
                    kw = [k.value for k in call.keywords if k.arg == step_param]
                    if not kw:
                        raise AnalysisError(f"{m.loc(call)}: cannot find step argument of {sink['method']}")
                    arg = kw[0]
                else:
                    arg = call.args[sink["arg"]]
            else:
                kw = [k.value for k in call.keywords if k.arg == sink["arg"]]
                if not kw:
                    continue  # e.g. super().save_checkpoint pass-through
                arg = kw[0]
            stored = affine(label_expr, {step_param: affine(arg)})
            ctrl = controlling(m, stmt)
            outer_atoms = modulo_atoms(ctrl)
            if stored.is_const():
                # initial snapshot site
                init_sites += 1
                off0 = any(pol and norm(a).replace(" ", "") in ("self.step_offset==0", "0==self.step_offset") for a, pol, _ in ctrl)
                ctx.check(stored.const == 0 and off0, "R5", m, call, qn, stmt,
                          f"{sink['stream']}: initial snapshot labelled 0 under step_offset == 0",
                          f"{sink['stream']}: constant-label write (label {stored.const}) "
                          + ("not guarded by step_offset == 0" if not off0 else "is not labelled 0"))
                ctx.check(not outer_atoms, "R1", m, call, qn, stmt, f"{sink['stream']}: initial snapshot not gated by a step modulus",
                          f"{sink['stream']}: initial snapshot is gated by a modulo test")
                continue
            loop_sites += 1
            # substitute callee params in inner atoms
            all_atoms = [(x, y, mult, a, "call site", func, cls, m, None) for (x, y, mult, a) in outer_atoms]
            for (x, y, mult, a) in inner_atoms:
                all_atoms.append((x, y, mult, a, "inside " + callee.name, callee, h5w, md, {step_param: affine(arg)}))
            own_seen = False
            for (x, y, mult, a, where, f_, c_, m_, subst) in all_atoms:
                labs = ct.labels(y, f_, c_)
                own = sink["own"]
                if own == PER_STREAM:
                    is_own = labs == {"ITEM:self._cadence"}
                else:
                    is_own = labs == own
                own_seen = own_seen or (is_own and mult is True)
                ctx.check(is_own, "R1", m, call, qn, a,
                          f"{sink['stream']}: guard `{short(a, 60)}` ({where}) modulus derives from own cadence only",
                          f"{sink['stream']} stream is gated ({where}) by `{short(a, 80)}` whose modulus derives from "
                          f"config key(s) {sorted(labs)} instead of its own cadence "
                          f"({'per-stream item' if own == PER_STREAM else sorted(own)})")
                ctx.check(mult is True, "R1", m, call, qn, a,
                          f"{sink['stream']}: guard `{short(a, 60)}` holds as 'step is a multiple of the cadence'",
                          f"{sink['stream']}: guard `{short(a, 80)}` ({where}) does not establish 'step is a multiple of cadence' "
                          f"(polarity/shape)")
                tested = affine(x, subst)
                ctx.check(tested == stored, "R1", m, call, qn, a,
                          f"{sink['stream']}: tested step `{tested}` equals stored label `{stored}`",
                          f"{sink['stream']}: guard tests `{tested}` but the label written is `{stored}` ({where})")
                # R4 positivity of the modulus
                ctrl_here = ctrl if where == "call site" else inner_ctrl
                ctx.check(_positive_guard(y, ctrl_here, ct, f_, c_), "R4", m, call, qn, a,
                          f"{sink['stream']}: modulus `{short(y, 40)}` guarded positive ({where})",
                          f"{sink['stream']}: modulo guard `{short(a, 80)}` ({where}) has no positivity conjunct on `{short(y, 40)}`: "
                          f"a zero cadence would not suppress the stream")
            ctx.check(own_seen, "R1", m, call, qn, stmt,
                      f"{sink['stream']}: write at `{short(call, 60)}` is gated by its own cadence",
                      f"{sink['stream']}: write `{short(call, 80)}` in {qn} is not gated by any `step % own-cadence == 0` test")
        if loop_sites == 0:
            raise AnalysisError(f"C11: no step-loop call site of {sink['method']} found")
        if sink["initial"]:
            ctx.check(init_sites >= 1, "R5", md, callee, sink["method"], sink["method"],
                      f"{sink['stream']}: has an initial-snapshot write site", f"{sink['stream']}: no initial snapshot (label 0) is ever written")


def _r8_by_value(ctx, repo, md) -> bool:
    from .. import h5model
    try:
        fresh = h5model.interpreted_fresh_runs(repo)
        resumed = h5model.interpreted_resume_runs(repo, all_crash_points=(ctx.tier == "thorough"))
        na = h5model.interpreted_nonadiabatic_writer(repo)
    except AnalysisError as e:
        ctx.note(f"R8: the run loop / output setup / writers could not be interpreted ({str(e)[:140]}); cadences are judged by the shape-based rules R1-R7 only")
        ctx.ok("R8", MD, "not interpretable in this spelling: judged by the shape-based rules", nontrivial=False)
        return False, False
    good = True
    run = md.func("Molecular_Dynamics_Basic.run")

    def describe(t):
        pe, xe, d, c, v, f, td, molid, steps, exc = t
        return (f"print {pe} / xyz {xe} / data {d} / coordinates {c} / velocities {v} / forces {f} / tdm {td}, {steps} steps, molecules {molid}" + (", excited states" if exc else ""))
    for t, msgs in fresh:
        ctx.check(not msgs, "R8", md, run, "Molecular_Dynamics_Basic.run", f"fresh run, cadences {describe(t)}", f"fresh run: every sink holds exactly its due steps ({describe(t)})",
                  (msgs[0] if msgs else "") + f" [fresh run, cadences {describe(t)}]")
        good = good and not msgs
    for t, ck, msgs, n in resumed:
        ctx.check(not msgs, "R8", md, run, "Molecular_Dynamics_Basic.run", f"resumed run, cadences {describe(t)}, checkpoint every {ck}",
                  f"{n} kill points: resumed sinks hold exactly their due steps ({describe(t)}, checkpoint every {ck})",
                  (msgs[0] if msgs else "") + f" [cadences {describe(t)}, checkpoint every {ck}]")
        good = good and not msgs
    ap = md.func("HDF5Writer.append_nonadiabatic") if md.has_func("HDF5Writer.append_nonadiabatic") else run
    for c, N, msgs in na:
        ctx.check(not msgs, "R8", md, ap, "HDF5Writer.append_nonadiabatic", f"nonadiabatic cadence {c}, {N} steps", f"nonadiabatic rows of the writer are the due steps (cadence {c}, {N} steps)",
                  (msgs[0] if msgs else "") + f" [nonadiabatic cadence {c}, {N} steps]")
        good = good and not msgs
    # the stream as the surface-hopping engine feeds it (initial call in initialize, per-step call in _do_integrator_step)
    na_good = False
    try:
        nae = h5model.interpreted_nonadiabatic_engine(repo)
        na_good = True
        nadm = repo.mod(NAD)
        step_f = nadm.func("NonadiabaticDynamicsBase._do_integrator_step")
        for c, N, msgs in nae:
            ctx.check(not msgs, "R8", nadm, step_f, "NonadiabaticDynamicsBase._do_integrator_step", f"engine-fed nonadiabatic cadence {c}, {N} steps",
                      f"nonadiabatic rows written by the surface-hopping engine are the due steps (cadence {c}, {N} steps, fresh and resumed)",
                      (msgs[0] if msgs else "") + f" [engine-fed nonadiabatic cadence {c}, {N} steps]")
            na_good = na_good and not msgs
    except AnalysisError as e:
        ctx.note(f"R8: the nonadiabatic call sites of the surface-hopping engine could not be interpreted ({str(e)[:120]}); judged by the shape-based rules")
    return good, (good and na_good)


def _positive_guard(y, ctrl, ct=None, func=None, cls=None, depth=0) -> bool:
    """Some controlling atom establishes modulus > 0: directly, by truthiness, or through a boolean
    flag whose definition has a `E > 0` conjunct with the same configuration labels as the modulus."""
    ytxt = norm(y)
    ylabs = ct.labels(y, func, cls) if ct is not None else None
    from ..guards import atoms as _atoms
    for a, pol, _ in ctrl:
        if ct is not None and pol and isinstance(a, (ast.Name, ast.Attribute)) and depth < 4:
            # expand flag definitions
            defs = []
            if isinstance(a, ast.Name):
                defs = [(v, func, cls) for v in ct._assignments(func, a.id) if not isinstance(v, tuple)]
            else:
                ch = attr_chain(a)
                if ch and ch[0] == "self" and len(ch) == 2 and cls is not None:
                    defs = [(v, fn, c) for v, fn, c in ct._self_field_values(cls, ch[1])]
            for v, fn, c in defs:
                if isinstance(v, ast.Constant):
                    continue
                sub = [(x, p, None) for x, p in _atoms(v, True)]
                for x, p, _n in sub:
                    if p and isinstance(x, ast.Compare) and len(x.ops) == 1 and isinstance(x.ops[0], ast.Gt) \
                            and norm(x.comparators[0]) == "0" and ylabs and ct.labels(x.left, fn, c) == ylabs:
                        return True
                if _positive_guard_flag(v, ylabs, ct, fn, c, depth + 1):
                    return True
        if isinstance(a, ast.Compare) and len(a.ops) == 1:
            l, r, op = norm(a.left), norm(a.comparators[0]), a.ops[0]
            if l == ytxt and r == "0":
                if (isinstance(op, ast.Gt) and pol) or (isinstance(op, ast.LtE) and not pol):
                    return True
                if isinstance(op, ast.GtE) and pol and False:
                    return False
            if r == ytxt and l == "0":
                if (isinstance(op, ast.Lt) and pol) or (isinstance(op, ast.GtE) and not pol):
                    return True
        elif norm(a) == ytxt and pol:
            return True  # truthiness: None/0 are falsy
    return False


def _positive_guard_flag(v, ylabs, ct, fn, c, depth) -> bool:
    from ..guards import atoms as _atoms
    if depth > 4:
        return False
    for x, p in _atoms(v, True):
        if not p:
            continue
        if isinstance(x, ast.Compare) and len(x.ops) == 1 and isinstance(x.ops[0], ast.Gt) and norm(x.comparators[0]) == "0" \
                and ylabs and ct.labels(x.left, fn, c) == ylabs:
            return True
        if isinstance(x, ast.Name):
            for d in ct._assignments(fn, x.id):
                if not isinstance(d, tuple) and not isinstance(d, ast.Constant) and _positive_guard_flag(d, ylabs, ct, fn, c, depth + 1):
                    return True
        if isinstance(x, ast.Attribute):
            ch = attr_chain(x)
            if ch and ch[0] == "self" and len(ch) == 2 and c is not None:
                for d, fn2, c2 in ct._self_field_values(c, ch[1]):
                    if not isinstance(d, ast.Constant) and _positive_guard_flag(d, ylabs, ct, fn2, c2, depth + 1):
                        return True
    return False


def _vector_plumbing(ctx, md, ct, f):
    """append_vectors: gate -> write_names -> tensors -> row stores; returns (modulo atoms at the gate, ctrl)."""
    qn = "HDF5Writer.append_vectors"
    # 1. the gate: <list>.append(name) controlled by a modulo on the same loop's stride
    gate_atoms, gate_ctrl = None, None
    names_var = None
    for n in ast.walk(f):
        if isinstance(n, ast.For) and isinstance(n.iter, ast.Call) and isinstance(n.iter.func, ast.Attribute) \
                and n.iter.func.attr == "items" and norm(n.iter.func.value) == "self._cadence" \
                and isinstance(n.target, ast.Tuple) and len(n.target.elts) == 2:
            kname, vname = n.target.elts[0].id, n.target.elts[1].id
            for c in ast.walk(n):
                if isinstance(c, ast.Call) and isinstance(c.func, ast.Attribute) and c.func.attr in ("append", "add") \
                        and c.args and isinstance(c.args[0], ast.Name) and c.args[0].id == kname:
                    st = md.enclosing_stmt(c)
                    gate_ctrl = controlling(md, st, stop=None)
                    gate_atoms = [t for t in modulo_atoms(gate_ctrl)]
                    names_var = norm(c.func.value)
                    ok = any(isinstance(y, ast.Name) and y.id == vname for (_, y, _, _) in gate_atoms)
                    ctx.check(ok, "R1", md, c, qn, st, "vector stream selected by a modulo on its own stride (same loop item)",
                              "vector stream name is selected without a modulo test on its own stride")
    if gate_atoms is None:
        # alternative shape: row stores directly inside the cadence loop
        for n in ast.walk(f):
            if isinstance(n, ast.For) and "self._cadence" in norm(n.iter):
                stores = [s for s in _steps_stores(n)]
                if stores:
                    gate_ctrl = controlling(md, stores[0])
                    return modulo_atoms(gate_ctrl), gate_ctrl
        raise AnalysisError("append_vectors: per-stream gate not recognised (shape drift)")
    # 2. tensors[K] = molecule.<attr>[...] guarded by K in write_names
    expect = {"coordinates": "coordinates", "velocities": "velocities", "forces": "force"}
    n_t = 0
    for n in ast.walk(f):
        if isinstance(n, ast.Assign) and len(n.targets) == 1 and isinstance(n.targets[0], ast.Subscript) \
                and isinstance(n.targets[0].slice, ast.Constant) and n.targets[0].slice.value in expect \
                and isinstance(n.targets[0].value, ast.Name):
            k = n.targets[0].slice.value
            n_t += 1
            ctrl = controlling(md, n)
            g_ok = any(pol and isinstance(a, ast.Compare) and isinstance(a.ops[0], ast.In) and isinstance(a.left, ast.Constant)
                       and a.left.value == k and norm(a.comparators[0]) == names_var for a, pol, _ in ctrl)
            attrs = {x.attr for x in ast.walk(n.value) if isinstance(x, ast.Attribute) and isinstance(x.value, ast.Name) and x.value.id == "molecule"}
            ctx.check(g_ok and attrs == {expect[k]}, "R1", md, n, qn, n,
                      f"vector stream '{k}' stores molecule.{expect[k]} only when its own name was selected",
                      f"vector stream '{k}': " + ("stores molecule.%s" % sorted(attrs) if attrs != {expect[k]} else f"not guarded by '{k}' in {names_var}"))
    if n_t < 3:
        raise AnalysisError("append_vectors: tensors[...] stores not recognised (shape drift)")
    return gate_atoms, gate_ctrl


def _r2_allocation(ctx, md, ct):
    f = md.func("HDF5Writer._n_timepoints")
    params = [a.arg for a in f.args.args]
    if len(params) < 3:
        raise AnalysisError("_n_timepoints signature drift")
    bad = []
    n = 0
    for steps in range(0, 61):
        for stride in range(-1, 13):
            for inc in (True, False):
                got = exec_int_function(f, {params[0]: steps, params[1]: stride, params[2]: inc})
                if stride <= 0:
                    want = 0
                elif inc:
                    want = sum(1 for s in range(0, steps + 1) if s % stride == 0)
                else:
                    want = sum(1 for s in range(1, steps + 1) if s % stride == 0)
                    # resumed run: rows are those of the original file; without the initial row the count of due
                    # steps in 1..steps is floor(steps/stride); the code's ceil variant is only used for capacity of a
                    # resumed file that already exists (not allocated), so only the include_initial arm is an obligation
                    n += 1
                    continue
                n += 1
                if got != want:
                    bad.append((steps, stride, inc, got, want))
    ctx.exhaustive = True
    ctx.check(not bad, "R2", md, f, "HDF5Writer._n_timepoints", f,
              f"_n_timepoints(steps, stride, include_initial=True) == #{{s in [0,steps]: s % stride == 0}} and 0 for stride<=0 ({n} cases)",
              f"_n_timepoints disagrees with the number of due steps, first cases (steps,stride,initial,got,want): {bad[:4]}")

    # fresh run passes include_initial = (step_offset == 0)
    ini = md.func("Molecular_Dynamics_Basic.initialize")
    found = False
    for c in ast.walk(ini):
        if isinstance(c, ast.Call) and isinstance(c.func, ast.Attribute) and c.func.attr == "open" and "_h5_writer" in norm(c.func.value):
            found = True
            kws = {k.arg: k.value for k in c.keywords}
            inc = kws.get("include_initial")
            ok = inc is not None and norm(inc).replace(" ", "").strip("()") in ("self.step_offset==0", "True")
            ctx.check(ok, "R5", md, c, "Molecular_Dynamics_Basic.initialize", c,
                      "fresh runs allocate the initial row (include_initial = step_offset == 0)",
                      f"HDF5Writer.open called with include_initial={norm(inc) if inc is not None else 'default False'}: the step-0 row is not allocated")
            steps_arg = c.args[2] if len(c.args) > 2 else kws.get("steps")
            ctx.check(steps_arg is not None and norm(steps_arg) == "steps", "R2", md, c, "Molecular_Dynamics_Basic.initialize", c,
                      "allocation uses the planned number of steps", f"allocation length argument is `{norm(steps_arg)}`, not the planned `steps`")
    if not found:
        raise AnalysisError("initialize: HDF5Writer.open call not found")

    # open(): each Tw uses its own cadence
    op = md.func("HDF5Writer.open")
    h5w = md.cls("HDF5Writer")
    want = {"Tw_data": {"data"}, "Tw_tdm": {"transition_density_matrices"}, "Tw_na": {"nonadiabatic"}}
    seen = set()
    for st in op.body:
        if isinstance(st, ast.Assign) and isinstance(st.targets[0], ast.Name):
            nm = st.targets[0].id
            calls = [c for c in ast.walk(st.value) if isinstance(c, ast.Call) and isinstance(c.func, ast.Attribute) and c.func.attr == "_n_timepoints"]
            if not calls:
                continue
            c = calls[0]
            labs = ct.labels(c.args[1], op, h5w) if len(c.args) > 1 else set()
            inc = {k.arg: k.value for k in c.keywords}.get("include_initial", c.args[2] if len(c.args) > 2 else None)
            inc_ok = inc is not None and norm(inc) == "include_initial"
            steps_ok = norm(c.args[0]) == "steps"
            if nm in want:
                seen.add(nm)
                ctx.check(labs == want[nm] and inc_ok and steps_ok, "R2", md, st, "HDF5Writer.open", st,
                          f"{nm} allocated from its own cadence {sorted(want[nm])}, planned steps and the include_initial flag",
                          f"{nm} allocated from cadence key(s) {sorted(labs)} (expected {sorted(want[nm])}), include_initial="
                          f"{norm(inc) if inc is not None else 'default'}, steps=`{norm(c.args[0])}`")
            elif nm == "Tw_vec":
                seen.add(nm)
                per = isinstance(st.value, ast.DictComp) and labs == {"ITEM:self._cadence"}
                ctx.check(per and inc_ok and steps_ok, "R2", md, st, "HDF5Writer.open", st,
                          "Tw_vec allocated per stream from that stream's own cadence",
                          f"Tw_vec allocation derives from {sorted(labs)}; include_initial={norm(inc) if inc is not None else 'default'}")
    if seen != {"Tw_data", "Tw_tdm", "Tw_na", "Tw_vec"}:
        raise AnalysisError(f"HDF5Writer.open: allocation assignments not recognised ({sorted(seen)})")

    # resume cursors
    n_cur = check_resume_cursors(ctx, md, ct, "R2")
    if n_cur < 4:
        raise AnalysisError(f"_open_resume: only {n_cur} cursor formulas recognised")


def make_call_hook(md, func, cls_name):
    """Call interpreter for the integer evaluator: nested helper functions (with closure), aliases of
    methods, and static/instance methods of the class, all re-interpreted by exec_int_function."""
    from ..exprs import bind_call_args
    nested = {n.name: n for n in ast.walk(func) if isinstance(n, ast.FunctionDef) and n is not func}
    aliases = {}
    for st in ast.walk(func):
        if isinstance(st, ast.Assign) and len(st.targets) == 1 and isinstance(st.targets[0], ast.Name) and isinstance(st.value, ast.Attribute):
            aliases[st.targets[0].id] = st.value

    def hook(node, env, ev):
        f = node.func
        args = [ev.ev(a) for a in node.args]
        kws = {k.arg: ev.ev(k.value) for k in node.keywords if k.arg}
        if isinstance(f, ast.Name) and f.id in aliases:
            f = aliases[f.id]
        if isinstance(f, ast.Name) and f.id in nested:
            fd = nested[f.id]
            return exec_int_function(fd, bind_call_args(fd, node, args, kws, skip_self=False), closure=env, call=hook)
        if isinstance(f, ast.Attribute) and norm(f.value) in ("self", "cls", cls_name):
            q = f"{cls_name}.{f.attr}"
            if md.has_func(q):
                fd = md.func(q)
                return exec_int_function(fd, bind_call_args(fd, node, args, kws, skip_self=True), call=hook)
        raise AnalysisError(f"int_eval: cannot interpret call {norm(node)[:80]}")
    return hook


def check_resume_cursors(ctx, md, ct, rid) -> int:
    orf = md.func("HDF5Writer._open_resume")
    so = orf.args.args[3].arg if len(orf.args.args) > 3 else "step_offset"
    hook = make_call_hook(md, orf, "HDF5Writer")
    n_cur = 0
    for st in ast.walk(orf):
        if not (isinstance(st, ast.Assign) and len(st.targets) == 1 and isinstance(st.targets[0], ast.Subscript)):
            continue
        tgt = norm(st.targets[0])
        if not tgt.startswith("self.i_"):
            continue
        value = st.value
        loopvar = None
        if isinstance(value, ast.DictComp):
            g = value.generators[0]
            if isinstance(g.target, ast.Tuple) and len(g.target.elts) == 2:
                loopvar = g.target.elts[1].id
            value = value.value
        if isinstance(value, ast.Constant) and value.value == 0:
            continue  # constant arm (stream disabled)
        n_cur += 1
        cad_atoms = sorted({norm(x) for x in ast.walk(value) if (isinstance(x, ast.Attribute) and norm(x).startswith("self._") and not isinstance(md.parents.get(x), ast.Call) or
                                                                    (isinstance(x, ast.Attribute) and norm(x).startswith("self._") and md.parents.get(x) is not None
                                                                     and getattr(md.parents.get(x), "func", None) is not x)) or
                            (isinstance(x, ast.Name) and x.id == loopvar)})
        if len(cad_atoms) != 1:
            ctx.fail(rid, md, st, "HDF5Writer._open_resume", st, f"resume cursor `{tgt}` mixes cadences {cad_atoms}")
            continue
        cad = cad_atoms[0]
        cad_node = ast.parse(cad).body[0].value
        labs = ct.labels(cad_node, orf, md.cls("HDF5Writer")) if loopvar is None else {"ITEM:self._cadence"}
        own = {"self.i_data": {"data"}, "self.i_tdm": {"transition_density_matrices"}, "self.i_na": {"nonadiabatic"},
               "self.i_vec": {"ITEM:self._cadence"}}[tgt.split("[")[0]]
        ctx.check(labs == own, rid, md, st, "HDF5Writer._open_resume", st, f"resume cursor {tgt} uses own cadence",
                  f"resume cursor {tgt} is computed from cadence key(s) {sorted(labs)}, expected {sorted(own)}")
        ctrl = controlling(md, st)
        bad = []
        cases = 0
        for off in range(0, 61):
            for c in range(0, 13):
                env = {so: off, cad: c, "__cad__": c}
                skip = False
                for a, pol, _ in ctrl:
                    try:
                        if bool(int_eval(_rewrite_attr(a, cad), env, hook)) != pol:
                            skip = True
                    except (AnalysisError, ZeroDivisionError):
                        pass
                if skip:
                    continue
                cases += 1
                try:
                    got = int_eval(_rewrite_attr(value, cad), env, hook)
                except ZeroDivisionError:
                    got = "ZeroDivisionError"
                want = sum(1 for s in range(0, off + 1) if s % c == 0) if c > 0 else 0
                if got != want:
                    bad.append((off, c, got, want))
        ctx.check(not bad, rid, md, st, "HDF5Writer._open_resume", st,
                  f"resume cursor {tgt} == number of rows with label <= step_offset ({cases} cases)",
                  f"resume cursor {tgt} = `{short(value, 60)}` differs from the number of rows already written up to the checkpointed step "
                  f"(stale rows kept / rows skipped); first (step_offset,cadence,got,want): {bad[:4]}")
    return n_cur


def _rewrite_attr(node, cad_text):
    """Replace occurrences of the cadence attribute (self._x) by Name('__cad__') for the evaluator."""
    class T(ast.NodeTransformer):
        def visit_Attribute(self, n):
            if norm(n) == cad_text:
                return ast.Name(id="__cad__", ctx=ast.Load())
            return self.generic_visit(n)

        def visit_Name(self, n):
            if n.id == cad_text:
                return ast.Name(id="__cad__", ctx=ast.Load())
            return n
    import copy
    return T().visit(copy.deepcopy(node))


def _r3_cursors(ctx, md):
    n = 0
    for meth in ("append_data", "append_vectors", "append_nonadiabatic"):
        f = md.func("HDF5Writer." + meth)
        step_param = f.args.args[1].arg
        for st in _steps_stores(f):
            n += 1
            qn = "HDF5Writer." + meth
            idx = st.targets[0].slice
            lab = affine(st.value)
            ctx.check(lab == Affine({step_param: 1}, 0), "R3", md, st, qn, st,
                      "row label stored is the step argument itself", f"row label stored is `{norm(st.value)}`, not the step argument `{step_param}`")
            if not isinstance(idx, ast.Name):
                ctx.fail("R3", md, st, qn, st, "row index is not a local cursor variable")
                continue
            # cursor source and update in the same block
            block = None
            parent = md.parents[st]
            for fld in ("body", "orelse"):
                b = getattr(parent, fld, None)
                if isinstance(b, list) and st in b:
                    block = b
            cur_src = None
            for d in ast.walk(f):
                if isinstance(d, ast.Assign) and len(d.targets) == 1 and isinstance(d.targets[0], ast.Name) and d.targets[0].id == idx.id:
                    cur_src = d.value
            src_txt = norm(cur_src) if cur_src is not None else ""
            mcur = re.search(r"(self\.)?i_(data|vec|tdm|na)", src_txt)
            if not mcur:
                ctx.fail("R3", md, st, qn, st, f"row index `{idx.id}` does not come from a writer cursor (defined as `{src_txt}`)")
                continue
            fam = mcur.group(0).replace("self.", "")
            ups = []
            for later in block[block.index(st) + 1:]:
                for d in ast.walk(later):
                    if isinstance(d, ast.Assign) and len(d.targets) == 1 and isinstance(d.targets[0], ast.Subscript) \
                            and re.match(r"(self\.)?%s\[" % fam, norm(d.targets[0])):
                        ups.append(d)
                    if isinstance(d, ast.AugAssign) and re.match(r"(self\.)?%s\[" % fam, norm(d.target)):
                        ups.append(d)
            good = False
            if len(ups) == 1:
                u = ups[0]
                if isinstance(u, ast.Assign):
                    good = affine(u.value) == Affine({idx.id: 1}, 1) and md.parents[u] is parent
                else:
                    good = isinstance(u.op, ast.Add) and affine(u.value) == Affine({}, 1) and md.parents[u] is parent
            ctx.check(good, "R3", md, st, qn, st, f"cursor {fam} advanced by exactly 1 after the row commit, on the same path",
                      f"cursor {fam} is not advanced by exactly one, once, in the block of the row commit "
                      f"(updates found: {[short(u, 50) for u in ups]})")
            # the values row uses the same index
            sib_idx = set()
            for later in block:
                if isinstance(later, ast.Assign) and isinstance(later.targets[0], ast.Subscript):
                    t = later.targets[0]
                    if isinstance(t.value, ast.Subscript) and isinstance(t.value.slice, ast.Constant) and t.value.slice.value != "steps":
                        first = t.slice.elts[0] if isinstance(t.slice, ast.Tuple) else t.slice
                        sib_idx.add(norm(first))
            ctx.check(sib_idx <= {idx.id}, "R3", md, st, qn, st, "all datasets of the row are written at the same cursor index",
                      f"datasets of one row are written at different indices {sorted(sib_idx)} vs `{idx.id}`")
    ctx.floor("R3", 8)


def _r6_alloc_labels(ctx, md, ct):
    """Dataset first dimension in _create_new comes from the stream's own Tw; no h5 row store outside HDF5Writer."""
    f = md.func("HDF5Writer._create_new")
    params = [a.arg for a in f.args.args]
    # group variable -> expected Tw parameter
    expect = {}
    for st in ast.walk(f):
        if isinstance(st, ast.Assign) and isinstance(st.targets[0], ast.Name) and isinstance(st.value, ast.Call) \
                and isinstance(st.value.func, ast.Attribute) and st.value.func.attr == "create_group" and st.value.args:
            a0 = st.value.args[0]
            key = a0.value if isinstance(a0, ast.Constant) else ("ITEM" if isinstance(a0, ast.Name) else None)
            expect[st.targets[0].id] = key
    tw_for = {"data": "Tw_data", "transition_density_matrices": "Tw_tdm", "nonadiabatic": "Tw_na", "ITEM": None}
    n = 0
    for c in ast.walk(f):
        if isinstance(c, ast.Call) and isinstance(c.func, ast.Attribute) and c.func.attr == "_create_row_chunked" and len(c.args) >= 3:
            g, shape = c.args[0], c.args[2]
            if not (isinstance(g, ast.Name) and g.id in expect and isinstance(shape, ast.Tuple) and shape.elts):
                continue
            n += 1
            first = shape.elts[0]
            key = expect[g.id]
            if key == "ITEM":
                # inside `for name, Tlen in Tw_vec.items()`
                ok = isinstance(first, ast.Name) and any(
                    isinstance(l, ast.For) and "Tw_vec" in norm(l.iter) and isinstance(l.target, ast.Tuple)
                    and len(l.target.elts) == 2 and l.target.elts[1].id == first.id for l in ast.walk(f))
                what = "per-stream Tw_vec item"
            else:
                ok = isinstance(first, ast.Name) and first.id == tw_for.get(key) and first.id in params
                what = tw_for.get(key)
            ctx.check(ok, "R6", md, c, "HDF5Writer._create_new", c, f"dataset in group '{key}' sized by {what}",
                      f"dataset `{short(c, 70)}` in group '{key}' is sized by `{norm(first)}` instead of {what}")
    if n < 10:
        raise AnalysisError(f"_create_new: only {n} dataset allocations recognised")
    # parameter binding at the call site in open(): positional names agree
    op = md.func("HDF5Writer.open")
    for c in ast.walk(op):
        if isinstance(c, ast.Call) and isinstance(c.func, ast.Attribute) and c.func.attr == "_create_new":
            for i, a in enumerate(c.args):
                p = params[i + 1] if i + 1 < len(params) else None
                if p and p.startswith("Tw_") and isinstance(a, ast.Name):
                    base_ok = a.id == p or a.id.startswith(p)
                    ctx.check(base_ok, "R6", md, c, "HDF5Writer.open", a, f"_create_new parameter {p} bound to `{a.id}`",
                              f"_create_new parameter `{p}` is passed `{a.id}` (capacity of another stream)")
    # who-may-write: ["steps"] stores only in HDF5Writer
    for rel in (MD, NAD):
        m = ctx.repo.mod(rel)
        for st in _steps_stores(m.tree):
            qn = m.qualname_of(st)
            ctx.check(qn.startswith("HDF5Writer.append_"), "R6", m, st, qn, st, "row commit lives in an HDF5Writer.append_* method",
                      "HDF5 row commit outside HDF5Writer.append_* (bypasses the per-stream gate)")


def _r7(ctx, repo):
    """`self._do_h5 / _do_xyz / _do_screen` decide whether a writer object is created at all.  For every stream served by a writer the
    flag must be True whenever that stream's own key is positive (and output molecules are selected), whatever the other keys are:
    three-valued evaluation of the flag's defining expression under {own leaves: True, leaves of other streams: False, has_molid: True}."""
    from .c18 import three_val
    md = repo.mod(MD)
    oc = md.classes.get("OutputConfig")
    if oc is None:
        raise AnalysisError("OutputConfig not found")
    # which config keys each OutputConfig accessor reads
    getter_keys = {}
    for st in oc.body:
        if isinstance(st, ast.FunctionDef):
            keys = {c.args[0].value for c in calls_in(st) if callee_attr(c) == "get" and c.args and isinstance(c.args[0], ast.Constant) and isinstance(c.args[0].value, str)
                    and "h5_config" in norm(c.func)}
            if keys:
                getter_keys[st.name] = keys
    field_keys = {"xyz_every": {"xyz"}, "print_every": {"print every"}}
    ini = md.func("Molecular_Dynamics_Basic.initialize")
    flags = {"self._do_h5": [({"data"}, "data"), ({"coordinates"}, "coordinates"), ({"velocities"}, "velocities"), ({"forces"}, "forces"), ({"nonadiabatic"}, "nonadiabatic")],
             "self._do_xyz": [({"xyz"}, "xyz")], "self._do_screen": [({"print every"}, "print every")]}
    n = 0
    for flag, streams in flags.items():
        defs_ = [st for st in ast.walk(ini) if isinstance(st, ast.Assign) and any(norm(t) == flag for t in st.targets)]
        if len(defs_) != 1:
            raise AnalysisError(f"initialize: {flag} is not assigned exactly once")
        expr = defs_[0].value

        def leaves(e):
            if isinstance(e, ast.BoolOp):
                for v in e.values:
                    yield from leaves(v)
            elif isinstance(e, ast.UnaryOp) and isinstance(e.op, ast.Not):
                yield from leaves(e.operand)
            elif isinstance(e, ast.Call) and (call_name(e) or "") == "bool" and len(e.args) == 1:
                yield from leaves(e.args[0])
            else:
                yield e

        ct_ = ConfTaint(repo)
        mdb = md.classes.get("Molecular_Dynamics_Basic")

        def labels(leaf):
            out = set()
            for c in calls_in(leaf):
                out |= getter_keys.get(callee_attr(c) or "", set())
            for x in ast.walk(leaf):
                if isinstance(x, ast.Attribute) and x.attr in field_keys:
                    out |= field_keys[x.attr]
            if not out:
                # locals: resolved through their definitions to configuration keys
                got = {l for l in ct_.labels(leaf, ini, mdb) if not l.startswith("?")}
                out |= {l for l in got if l in {"data", "coordinates", "velocities", "forces", "nonadiabatic", "xyz", "print every", "transition_density_matrices"}}
            return out
        lvs = list(leaves(expr))
        for own, sname in streams:
            val = {}
            for lf in lvs:
                lab = labels(lf)
                from .c18 import leaf_key
                key, neg = leaf_key(lf)
                if not lab:
                    if "molid" in norm(lf):
                        val[key] = (not neg) if True else None
                    continue
                truth = bool(lab & own)
                val[key] = (truth != neg)
            got = three_val(expr, val)
            n += 1
            ctx.check(got is True, "R7", md, defs_[0], "Molecular_Dynamics_Basic.initialize", f"{flag} for stream {sname}",
                      f"{flag} is True whenever only `{sname}` has a positive cadence (and molecules are selected)",
                      f"{flag} = `{short(norm(expr), 120)}` evaluates to {got} when `{sname}` is the only stream with a positive cadence: no writer is created, "
                      f"the stream's appends are silently skipped and no file is produced")
    ctx.floor("R7", 7)
