"""Shared MD-integrator analyses: step-function inventory, event labelling for the
kick-drift-kick typestate, sympy translation of MD update expressions, and the ZeroOnPad lattice."""
from __future__ import annotations

import ast
from typing import Dict, List, Optional, Set, Tuple

from .cfg import CFG, Node, build_cfg
from .exprs import to_sympy, torch_funcs
from .loader import AnalysisError, Module, Repo, attr_chain, call_name, callee_attr, calls_in, dotted, names_in, norm

MD = "seqm/MolecularDynamics.py"
NAD = "seqm/NonadiabaticDynamics.py"

STEP_FUNCS = [
    (MD, "Molecular_Dynamics_Basic.one_step"),
    (MD, "Molecular_Dynamics_Langevin.one_step"),
    (MD, "XL_BOMD.one_step"),
    (MD, "XL_ESMD.one_step"),
    (NAD, "NonadiabaticDynamicsBase._do_integrator_step"),
]

PHASE = {"velocities", "coordinates", "acc"}
INPLACE = {"add_", "sub_", "mul_", "div_", "copy_", "zero_", "fill_", "addcmul_", "index_add_", "masked_fill_", "clamp_", "neg_"}


def md_symbols():
    import sympy as sp
    return {
        "a": sp.Symbol("a", real=True), "v": sp.Symbol("v", real=True), "x": sp.Symbol("x", real=True),
        "F": sp.Symbol("F", real=True), "minv": sp.Symbol("minv", positive=True), "m": sp.Symbol("m", positive=True),
        "dt": sp.Symbol("dt", positive=True), "ACC": sp.Symbol("ACC_SCALE", positive=True),
        "VEL": sp.Symbol("VEL_SCALE", positive=True), "KES": sp.Symbol("KES", positive=True),
        "TS": sp.Symbol("TEMPERATURE_SCALE", positive=True), "ndof": sp.Symbol("n_dof", positive=True),
        "Temp": sp.Symbol("Temp", positive=True), "damp": sp.Symbol("damp", positive=True),
    }


def md_env(sym, mol="molecule"):
    return {
        f"{mol}.acc": sym["a"], f"{mol}.velocities": sym["v"], f"{mol}.coordinates": sym["x"], f"{mol}.force": sym["F"],
        f"{mol}.mass_inverse": sym["minv"], f"{mol}.mass": sym["m"], "self.timestep": sym["dt"],
        "CONSTANTS.ACC_SCALE": sym["ACC"], "CONSTANTS.VEL_SCALE": sym["VEL"], "CONSTANTS.KINETIC_ENERGY_SCALE": sym["KES"],
        "CONSTANTS.TEMPERATURE_SCALE": sym["TS"], "self.n_dof": sym["ndof"], "self.Temp": sym["Temp"], "self.damp": sym["damp"],
    }


def md_funcs():
    f = torch_funcs()
    f["torch.sum"] = lambda a, n: a[0]
    f[".sum"] = lambda a, n: a[0]
    return f


def local_defs(func: ast.AST) -> Dict[str, List[ast.AST]]:
    """All definitions of each local name.  Augmented assignments (`x *= e`) and in-place tensor methods
    (`x.mul_(e)`, `x[...] = e`) count as further definitions `x <op> e`, so that a name modified in place is never
    mistaken for its first assignment."""
    out: Dict[str, List[ast.AST]] = {}
    for n in ast.walk(func):
        if isinstance(n, ast.Assign) and len(n.targets) == 1 and isinstance(n.targets[0], ast.Name):
            out.setdefault(n.targets[0].id, []).append(n.value)
        elif isinstance(n, ast.Assign):
            for t in n.targets:
                if isinstance(t, ast.Subscript) and isinstance(t.value, ast.Name):
                    out.setdefault(t.value.id, []).append(n.value)
                elif isinstance(t, (ast.Tuple, ast.List)):
                    for e in t.elts:
                        if isinstance(e, ast.Name):
                            out.setdefault(e.id, []).append(ast.Call(func=ast.Name(id="__unpack__", ctx=ast.Load()), args=[n.value], keywords=[]))
        elif isinstance(n, ast.AugAssign) and isinstance(n.target, ast.Name):
            out.setdefault(n.target.id, []).append(ast.BinOp(left=ast.Name(id=n.target.id, ctx=ast.Load()), op=n.op, right=n.value))
        elif isinstance(n, ast.AugAssign) and isinstance(n.target, ast.Subscript) and isinstance(n.target.value, ast.Name):
            nm = n.target.value.id
            out.setdefault(nm, []).append(ast.BinOp(left=ast.Name(id=nm, ctx=ast.Load()), op=n.op, right=n.value))
        elif isinstance(n, ast.Call) and isinstance(n.func, ast.Attribute) and isinstance(n.func.value, ast.Name) \
                and n.func.attr in INPLACE and n.args:
            nm = n.func.value.id
            op = {"add_": ast.Add(), "sub_": ast.Sub(), "mul_": ast.Mult(), "div_": ast.Div()}.get(n.func.attr)
            if op is not None:
                out.setdefault(nm, []).append(ast.BinOp(left=ast.Name(id=nm, ctx=ast.Load()), op=op, right=n.args[0]))
            else:
                out.setdefault(nm, []).append(n)
    return out


def mutated_phase_attr(stmt: ast.AST, mol_names=("molecule", "mol")) -> List[Tuple[str, str, ast.AST]]:
    """(attribute, how, node) for every write to molecule.{velocities,coordinates,acc} in stmt:
    in-place method call, attribute assignment, subscript store, augmented assignment."""
    out = []
    for n in ast.walk(stmt):
        if isinstance(n, ast.Call) and isinstance(n.func, ast.Attribute) and n.func.attr in INPLACE:
            base = n.func.value
            while isinstance(base, ast.Subscript):
                base = base.value
            ch = attr_chain(base)
            if ch and len(ch) == 2 and ch[0] in mol_names and ch[1] in PHASE:
                out.append((ch[1], n.func.attr, n))
        elif isinstance(n, (ast.Assign, ast.AugAssign)):
            tgts = n.targets if isinstance(n, ast.Assign) else [n.target]
            for t in tgts:
                base = t
                sub = False
                while isinstance(base, ast.Subscript):
                    base = base.value
                    sub = True
                ch = attr_chain(base)
                if ch and len(ch) == 2 and ch[0] in mol_names and ch[1] in PHASE:
                    out.append((ch[1], "store[]" if sub else ("aug" if isinstance(n, ast.AugAssign) else "assign"), n))
    return out


class StepEvents:
    """Labels CFG nodes of a step function with typestate events."""

    def __init__(self, mod: Module, func: ast.FunctionDef):
        self.mod, self.func = mod, func
        self.cfg = build_cfg(func)
        self.details: Dict[int, List[Tuple[str, ast.AST]]] = {}
        for n in self.cfg.nodes:
            if n.kind != "stmt":
                continue
            evs = self._events(n.stmt)
            if evs:
                self.details[n.id] = evs

    SPECIAL = {"_apply_langevin_thermostat", "esdriver", "_compute_electronic_structure", "_after_electronic_update", "one_step", "_do_integrator_step"}

    def _inline(self, call, depth):
        """events of a small helper method `self.<name>(...)` of the same class hierarchy, with the helper's parameters replaced by the
        caller's argument expressions (so coefficients are read in the caller's vocabulary).  Only straight-line helpers are inlined;
        a helper with branches around phase-space writes yields the opaque event '?', which no typestate accepts."""
        import copy
        if depth > 2 or not (isinstance(call.func, ast.Attribute) and isinstance(call.func.value, ast.Name) and call.func.value.id == "self"):
            return []
        name = call.func.attr
        if name in self.SPECIAL:
            return []
        cls = None
        cur = self.func
        while cur is not None and not isinstance(cur, ast.ClassDef):
            cur = self.mod.parents.get(cur)
        cls = cur
        if cls is None:
            return []
        hit = self.mod.repo.find_method(self.mod, cls, name) if hasattr(self.mod, "repo") else None
        if hit is None:
            # search subclasses' / same-module definitions by name as a fallback
            for c_ in self.mod.classes.values():
                for st_ in c_.body:
                    if isinstance(st_, ast.FunctionDef) and st_.name == name:
                        hit = (self.mod, c_, st_)
        if hit is None:
            return []
        _, _, helper = hit
        params = [a.arg for a in helper.args.args if a.arg != "self"]
        amap = {}
        for pn, av in zip(params, call.args):
            amap[pn] = av
        for kw in call.keywords:
            if kw.arg in params:
                amap[kw.arg] = kw.value

        class Sub(ast.NodeTransformer):
            def visit_Name(self, n):
                if n.id in amap and isinstance(n.ctx, ast.Load):
                    return copy.deepcopy(amap[n.id])
                return n
        evs = []
        for st_ in helper.body:
            if isinstance(st_, ast.Expr) and isinstance(st_.value, ast.Constant):
                continue     # docstring
            if isinstance(st_, (ast.If, ast.For, ast.While, ast.Try)):
                # a compound statement: opaque when anything inside it (directly or through further helpers of the hierarchy) is an event
                inner_evs = []
                for x in ast.walk(st_):
                    if isinstance(x, ast.stmt) and not isinstance(x, (ast.If, ast.For, ast.While, ast.Try, ast.With)):
                        x2 = Sub().visit(copy.deepcopy(x))
                        ast.fix_missing_locations(x2)
                        inner_evs.extend(self._events(x2, depth + 1))
                if inner_evs:
                    evs.append(("?", call))
                continue
            st2 = Sub().visit(copy.deepcopy(st_))
            ast.fix_missing_locations(st2)
            inner = st2.body if isinstance(st2, ast.With) else [st2]
            for s2 in inner:
                for e in self._events(s2, depth + 1):
                    evs.append((e[0], e[1]))
        return evs

    def _events(self, st, depth=0) -> List[Tuple[str, ast.AST]]:
        evs = []
        inlined_any = False
        for c in calls_in(st):
            ca = callee_attr(c)
            inl = self._inline(c, depth)
            if inl:
                evs.extend(inl)
                inlined_any = True
                continue
            if ca == "_apply_langevin_thermostat":
                evs.append(("T", c))
            elif ca in ("esdriver", "_compute_electronic_structure") and isinstance(c.func, ast.Attribute) \
                    and isinstance(c.func.value, ast.Name) and c.func.value.id == "self":
                evs.append(("E", c))
            elif ca == "_after_electronic_update":
                evs.append(("H", c))
        for attr, how, node in mutated_phase_attr(st):
            if attr == "velocities":
                evs.append(("K" if how == "add_" else "v", node))
            elif attr == "coordinates":
                evs.append(("D" if how == "add_" else "x", node))
            elif attr == "acc":
                evs.append(("A" if how == "assign" else "a", node))
        # order events by source position inside the statement (inlined helper events keep their own order)
        if not inlined_any:
            evs.sort(key=lambda e: (getattr(e[1], "lineno", 0), getattr(e[1], "col_offset", 0)))
        return evs

    def label(self, node: Node) -> str:
        return "".join(e for e, _ in self.details.get(node.id, []))

    def words(self) -> Set[str]:
        return self.cfg.event_words(self.label, correlate=True)

    def all_events(self, kind: str) -> List[ast.AST]:
        return [n for evs in self.details.values() for k, n in evs if k == kind]


# ----------------------------------------------------------------------------- ZeroOnPad lattice
class ZeroOnPad:
    """Abstract interpretation with lattice {Z (zero on padding rows), A (anything)} over expressions.
    Z sources: molecule.mass, molecule.mass_inverse, molecule.force, molecule.acc, molecule.velocities
    (the invariant being established), and anything multiplied by a Z value."""

    Z_ATTRS = {"mass", "mass_inverse", "force", "acc", "velocities"}
    PRESERVE_CALLS = {"sqrt", "abs", "reshape", "view", "unsqueeze", "squeeze", "to", "clone", "detach", "type_as", "double",
                      "float", "expand_as", "expand", "contiguous", "neg", "square"}

    def __init__(self, func: ast.AST, self_fields: Dict[str, ast.AST] = None, extra_z: Set[str] = frozenset(), z_self_fields: Set[str] = frozenset()):
        self.defs = local_defs(func)
        self.self_fields = self_fields or {}
        self.z_self_fields = set(z_self_fields)    # attributes of the driver object that a by-value rule has shown to vanish wherever mass_inverse does
        self.extra_z = set(extra_z)
        self._stack = set()

    def is_z(self, e) -> bool:
        if isinstance(e, ast.Attribute):
            ch = attr_chain(e)
            if ch and len(ch) == 2 and ch[0] in ("molecule", "mol") and ch[1] in self.Z_ATTRS:
                return True
            if ch and len(ch) == 2 and ch[0] == "self" and ch[1] in self.z_self_fields:
                return True
            if ch and len(ch) == 2 and ch[0] == "self" and ch[1] in self.self_fields:
                key = "self." + ch[1]
                if key in self._stack:
                    return False
                self._stack.add(key)
                try:
                    return self.is_z(self.self_fields[ch[1]])
                finally:
                    self._stack.discard(key)
            return False
        if isinstance(e, ast.Name):
            if e.id in self.extra_z:
                return True
            if e.id in self._stack:
                return True  # greatest fixpoint: the invariant is assumed for the name inside its own (in-place) updates
            if e.id not in self.defs:
                return False
            self._stack.add(e.id)
            try:
                return all(self.is_z(d) for d in self.defs[e.id])
            finally:
                self._stack.discard(e.id)
        if isinstance(e, ast.Constant):
            return e.value == 0
        if isinstance(e, ast.Subscript):
            return self.is_z(e.value)
        if isinstance(e, ast.UnaryOp) and isinstance(e.op, (ast.USub, ast.UAdd)):
            return self.is_z(e.operand)
        if isinstance(e, ast.BinOp):
            if isinstance(e.op, ast.Mult):
                return self.is_z(e.left) or self.is_z(e.right)
            if isinstance(e.op, (ast.Add, ast.Sub)):
                return self.is_z(e.left) and self.is_z(e.right)
            if isinstance(e.op, ast.Div):
                return self.is_z(e.left)
            if isinstance(e.op, ast.Pow):
                return self.is_z(e.left)
        if isinstance(e, ast.Compare) and len(e.ops) == 1 and isinstance(e.ops[0], (ast.Gt, ast.NotEq)):
            # (Z > 0), (Z != 0): boolean mask that is False on padding
            return self.is_z(e.left) and isinstance(e.comparators[0], ast.Constant) and e.comparators[0].value == 0
        if isinstance(e, ast.Call):
            ca = callee_attr(e)
            cn = call_name(e) or ""
            if cn in ("torch.sqrt", "torch.abs", "torch.square", "torch.neg") and e.args:
                return self.is_z(e.args[0])
            if cn in ("torch.zeros_like", "torch.zeros"):
                return True
            if cn == "torch.where" and len(e.args) == 3:
                return self.is_z(e.args[1]) and self.is_z(e.args[2])
            if isinstance(e.func, ast.Attribute) and ca in self.PRESERVE_CALLS:
                return self.is_z(e.func.value)
            if cn in ("torch.linalg.cross", "torch.cross") and len(e.args) >= 2:
                return self.is_z(e.args[0]) or self.is_z(e.args[1])
        return False
