"""Statement-level control-flow graph for the statement kinds PYSEQM uses.

Nodes are simple statements plus header nodes for If/While/For/With/Try-handlers.
Two virtual exits: RETURN (normal completion / return) and RAISE (explicit raise that
leaves the function).  try/finally is handled by inlining a copy of the finalbody on
every exit kind that crosses it.  Implicit exceptions are modelled only inside ``try``
bodies (every node of the body has an 'exc' edge to each handler / to the finally copy
that leads to RAISE).
"""
from __future__ import annotations

import ast
from collections import deque
from typing import Callable, Dict, Iterable, List, Optional, Set, Tuple

from .loader import AnalysisError, norm


class Node:
    __slots__ = ("id", "kind", "stmt", "expr", "depth")

    def __init__(self, id, kind, stmt=None, expr=None):
        self.id = id
        self.kind = kind  # 'stmt','if','while','for','with','except','entry','return_exit','raise_exit','join'
        self.stmt = stmt
        self.expr = expr

    def __repr__(self):
        return f"<{self.id}:{self.kind}:{norm(self.expr if self.expr is not None else self.stmt)[:60]}>"

    @property
    def lineno(self):
        return getattr(self.stmt, "lineno", 0) if self.stmt is not None else 0

    def payload(self):
        """AST to inspect for events at this node (header expr for compound statements)."""
        if self.kind in ("if", "while"):
            return self.expr
        if self.kind == "for":
            return self.expr  # the iterable
        if self.kind == "with":
            return self.expr
        return self.stmt


class CFG:
    def __init__(self, func: ast.AST):
        self.func = func
        self.nodes: List[Node] = []
        self.succ: Dict[int, List[Tuple[int, str]]] = {}
        self.pred: Dict[int, List[Tuple[int, str]]] = {}
        self.entry = self._new("entry")
        self.exit_return = self._new("return_exit")
        self.exit_raise = self._new("raise_exit")
        self.stmt_nodes: Dict[ast.AST, List[int]] = {}
        body = func.body if hasattr(func, "body") else func
        ends = self._build_block(body, [self.entry], [])
        for e in ends:
            if isinstance(e, int):
                self._edge(e, self.exit_return, "fall")
            else:
                self._edge(e[0], self.exit_return, e[1] if e[1] in ("true", "false") else "fall")

    # ------------------------------------------------------------ building
    def _new(self, kind, stmt=None, expr=None) -> int:
        n = Node(len(self.nodes), kind, stmt, expr)
        self.nodes.append(n)
        self.succ[n.id] = []
        self.pred[n.id] = []
        if stmt is not None:
            self.stmt_nodes.setdefault(stmt, []).append(n.id)
        return n.id

    def _join(self, a, label) -> int:
        """an empty node that keeps the branch label of a dangling edge (if without else, loop exit)"""
        j = self._new("join")
        self._edge(a, j, label)
        return j

    def _edge(self, a, b, label="next"):
        if (b, label) not in self.succ[a]:
            self.succ[a].append((b, label))
            self.pred[b].append((a, label))

    def _connect(self, preds: Iterable, b: int):
        for p in preds:
            if isinstance(p, tuple):
                self._edge(p[0], b, p[1])
            else:
                self._edge(p, b)

    def _unwind(self, start_preds, frames, kind) -> Tuple[List, Optional[dict]]:
        """Route control leaving via `kind` ('return','raise','break','continue') through
        enclosing finally blocks.  Returns (preds after finally copies, target frame)."""
        preds = list(start_preds)
        for idx in range(len(frames) - 1, -1, -1):
            fr = frames[idx]
            if fr["type"] == "finally":
                preds = self._build_block(fr["body"], preds, frames[:idx])
            elif fr["type"] == "loop" and kind in ("break", "continue"):
                return preds, fr
            elif fr["type"] == "try" and kind == "raise":
                return preds, fr
        return preds, None

    def _build_block(self, stmts, preds, frames) -> List:
        for st in stmts:
            if not preds:
                break  # unreachable code after return/raise/break
            preds = self._build_stmt(st, preds, frames)
        return preds

    def _build_stmt(self, st, preds, frames) -> List:
        if isinstance(st, ast.If):
            n = self._new("if", st, st.test)
            self._connect(preds, n)
            t = self._build_block(st.body, [(n, "true")], frames)
            f = self._build_block(st.orelse, [(n, "false")], frames) if st.orelse else [self._join(n, "false")]
            return t + f
        if isinstance(st, ast.While):
            n = self._new("while", st, st.test)
            self._connect(preds, n)
            fr = {"type": "loop", "head": n, "breaks": []}
            body_end = self._build_block(st.body, [(n, "true")], frames + [fr])
            self._connect([(b if isinstance(b, int) else b[0], "back") for b in body_end], n)
            const_true = isinstance(st.test, ast.Constant) and bool(st.test.value)
            out = [] if const_true else ([(n, "false")] if st.orelse else [self._join(n, "false")])
            if st.orelse:
                out = self._build_block(st.orelse, out, frames)
            return out + fr["breaks"]
        if isinstance(st, (ast.For, ast.AsyncFor)):
            n = self._new("for", st, st.iter)
            self._connect(preds, n)
            fr = {"type": "loop", "head": n, "breaks": []}
            body_end = self._build_block(st.body, [(n, "true")], frames + [fr])
            self._connect([(b if isinstance(b, int) else b[0], "back") for b in body_end], n)
            out = [(n, "false")] if st.orelse else [self._join(n, "false")]
            if st.orelse:
                out = self._build_block(st.orelse, out, frames)
            return out + fr["breaks"]
        if isinstance(st, (ast.With, ast.AsyncWith)):
            n = self._new("with", st, st)
            self._connect(preds, n)
            return self._build_block(st.body, [n], frames)
        if isinstance(st, ast.Try) or st.__class__.__name__ == "TryStar":
            return self._build_try(st, preds, frames)
        if isinstance(st, ast.Return):
            n = self._new("stmt", st)
            self._connect(preds, n)
            p, _ = self._unwind([n], frames, "return")
            self._connect([(x if isinstance(x, int) else x[0], "return") for x in p], self.exit_return)
            return []
        if isinstance(st, ast.Raise):
            n = self._new("stmt", st)
            self._connect(preds, n)
            p, fr = self._unwind([n], frames, "raise")
            if fr is not None:
                fr["raises"].extend(p)
            else:
                self._connect([(x if isinstance(x, int) else x[0], "raise") for x in p], self.exit_raise)
            return []
        if isinstance(st, ast.Break):
            n = self._new("stmt", st)
            self._connect(preds, n)
            p, fr = self._unwind([n], frames, "break")
            if fr is None:
                raise AnalysisError("break outside loop")
            fr["breaks"].extend((x if isinstance(x, int) else x[0], "break") for x in p)
            return []
        if isinstance(st, ast.Continue):
            n = self._new("stmt", st)
            self._connect(preds, n)
            p, fr = self._unwind([n], frames, "continue")
            if fr is None:
                raise AnalysisError("continue outside loop")
            self._connect([(x if isinstance(x, int) else x[0], "back") for x in p], fr["head"])
            return []
        if isinstance(st, ast.Match):
            n = self._new("if", st, st.subject)
            self._connect(preds, n)
            out = []
            for case in st.cases:
                out += self._build_block(case.body, [(n, "case")], frames)
            return out + [(n, "false")]
        # simple statement (incl. nested def/class, which are opaque)
        n = self._new("stmt", st)
        self._connect(preds, n)
        return [n]

    def _build_try(self, st, preds, frames) -> List:
        inner_frames = list(frames)
        if st.finalbody:
            inner_frames = inner_frames + [{"type": "finally", "body": st.finalbody}]
        tryfr = {"type": "try", "raises": []}
        first_before = len(self.nodes)
        body_end = self._build_block(st.body, preds, inner_frames + ([tryfr] if st.handlers else []))
        body_nodes = list(range(first_before, len(self.nodes)))
        if st.orelse:
            body_end = self._build_block(st.orelse, body_end, inner_frames)
        out = list(body_end)
        if st.handlers:
            for h in st.handlers:
                hn = self._new("except", h, h.type)
                for b in body_nodes:
                    if self.nodes[b].kind in ("stmt", "if", "while", "for", "with"):
                        self._edge(b, hn, "exc")
                self._connect(tryfr["raises"], hn)
                # an exception may also occur before the first statement completes
                self._connect([(p if isinstance(p, int) else p[0], "exc") for p in preds], hn)
                out += self._build_block(h.body, [hn], inner_frames)
        elif st.finalbody:
            # implicit exceptions in the body run the finally block and propagate
            exc_preds = [(b, "exc") for b in body_nodes if self.nodes[b].kind in ("stmt", "if", "while", "for", "with")]
            if exc_preds:
                p = self._build_block(st.finalbody, exc_preds, frames)
                p2, fr = self._unwind(p, frames, "raise")
                if fr is not None:
                    fr["raises"].extend(p2)
                else:
                    self._connect([(x if isinstance(x, int) else x[0], "raise") for x in p2], self.exit_raise)
        if st.finalbody:
            out = self._build_block(st.finalbody, out, frames)
        return out

    # ------------------------------------------------------------ queries
    def node(self, i) -> Node:
        return self.nodes[i]

    def nodes_of(self, stmt) -> List[int]:
        return self.stmt_nodes.get(stmt, [])

    def find(self, pred: Callable[[Node], bool]) -> List[int]:
        return [n.id for n in self.nodes if pred(n)]

    def reachable(self, srcs, avoid: Set[int] = frozenset(), labels_avoid: Set[str] = frozenset(),
                  forward=True, include_src=False) -> Set[int]:
        """Nodes reachable from srcs through >=1 edge (unless include_src), never entering `avoid`."""
        if isinstance(srcs, int):
            srcs = [srcs]
        seen: Set[int] = set()
        dq = deque()
        adj = self.succ if forward else self.pred
        for s in srcs:
            if include_src:
                if s in avoid:
                    continue  # a source that is itself avoided contributes nothing
                seen.add(s)
            dq.append(s)
        started = set()
        while dq:
            a = dq.popleft()
            if a in started:
                continue
            started.add(a)
            for b, lab in adj[a]:
                if lab in labels_avoid or b in avoid:
                    continue
                if b not in seen:
                    seen.add(b)
                    dq.append(b)
        return seen

    def must_pass(self, src: int, dst: int, through: Set[int], labels_avoid=frozenset()) -> bool:
        """True iff every path src ->+ dst passes a node in `through` (vacuously true if unreachable)."""
        return dst not in self.reachable(src, avoid=set(through), labels_avoid=labels_avoid)

    def dominates(self, a: int, b: int) -> bool:
        """Every path entry -> b passes a."""
        if a == b:
            return True
        return b not in self.reachable(self.entry, avoid={a})

    def dominated_by_any(self, b: int, through: Set[int]) -> bool:
        if b in through:
            return True
        return b not in self.reachable(self.entry, avoid=set(through))

    def loop_body(self, head: int) -> Set[int]:
        """CFG nodes of the loop body: nodes whose statement lies syntactically inside the loop's body block
        (copies of finally blocks included)."""
        loop = self.nodes[head].stmt
        inside = set()
        for st in loop.body:
            for x in ast.walk(st):
                inside.add(id(x))
        return {n.id for n in self.nodes if n.stmt is not None and id(n.stmt) in inside and n.id != head}

    def loop_exit_succ(self, head: int) -> List[int]:
        return [b for b, lab in self.succ[head] if lab == "false"]

    # ---------------------------------------------------------------- flag-sensitive exploration
    def constant_flags(self) -> Set[str]:
        """Local names whose every assignment in the function is a literal constant (boolean/None/int flags)."""
        vals: Dict[str, List[ast.AST]] = {}
        for n in ast.walk(self.func):
            if isinstance(n, ast.Assign):
                for t in n.targets:
                    for x in ast.walk(t):
                        if isinstance(x, ast.Name):
                            vals.setdefault(x.id, []).append(n.value if isinstance(t, ast.Name) else None)
            elif isinstance(n, (ast.AugAssign, ast.For, ast.comprehension, ast.NamedExpr, ast.With)):
                tgt = getattr(n, "target", None)
                if tgt is not None:
                    for x in ast.walk(tgt):
                        if isinstance(x, ast.Name):
                            vals.setdefault(x.id, []).append(None)
        return {k for k, v in vals.items() if v and all(isinstance(x, ast.Constant) for x in v)}

    @staticmethod
    def _eval_flag_test(test, flags: Dict[str, object]):
        """True/False if decidable from known constant flags, else None."""
        if isinstance(test, ast.Name) and test.id in flags:
            return bool(flags[test.id])
        if isinstance(test, ast.UnaryOp) and isinstance(test.op, ast.Not):
            v = CFG._eval_flag_test(test.operand, flags)
            return None if v is None else (not v)
        if isinstance(test, ast.Compare) and len(test.ops) == 1 and isinstance(test.left, ast.Name) and test.left.id in flags \
                and isinstance(test.comparators[0], ast.Constant):
            a, b = flags[test.left.id], test.comparators[0].value
            op = test.ops[0]
            if isinstance(op, (ast.Eq, ast.Is)):
                return a == b if isinstance(op, ast.Eq) else a is b
            if isinstance(op, (ast.NotEq, ast.IsNot)):
                return a != b if isinstance(op, ast.NotEq) else a is not b
        if isinstance(test, ast.BoolOp):
            vs = [CFG._eval_flag_test(v, flags) for v in test.values]
            if isinstance(test.op, ast.And):
                if any(v is False for v in vs):
                    return False
                if all(v is True for v in vs):
                    return True
            else:
                if any(v is True for v in vs):
                    return True
                if all(v is False for v in vs):
                    return False
        return None

    def explore_tagged(self, tag_edge: Callable[[int, int, str, object], object], init_tag=None, limit: int = 200000):
        """Forward exploration from entry over states (node, known constant flags, tag).  `tag_edge(a, b, label, tag)`
        returns the tag after traversing edge a->b.  Branches decided by known constant flags are pruned.
        Returns the set of (node, tag) pairs reachable on flag-feasible paths."""
        flagnames = self.constant_flags()
        start = (self.entry, (), init_tag)
        seen = {start}
        todo = [start]
        out = set()
        while todo:
            n, fl, tag = todo.pop()
            limit -= 1
            if limit < 0:
                raise AnalysisError("explore_tagged: state budget exceeded")
            out.add((n, tag))
            node = self.nodes[n]
            flags = dict(fl)
            if node.kind == "stmt" and isinstance(node.stmt, ast.Assign):
                for t in node.stmt.targets:
                    if isinstance(t, ast.Name) and t.id in flagnames and isinstance(node.stmt.value, ast.Constant):
                        flags[t.id] = node.stmt.value.value
            decided = None
            if node.kind in ("if", "while") and node.expr is not None:
                decided = self._eval_flag_test(node.expr, flags)
            for b, lab in self.succ[n]:
                if decided is not None and lab in ("true", "false") and (lab == "true") != decided:
                    continue
                st = (b, tuple(sorted(flags.items(), key=lambda kv: kv[0])), tag_edge(n, b, lab, tag))
                if st not in seen:
                    seen.add(st)
                    todo.append(st)
        return out

    def on_cycle(self, n: int) -> bool:
        return n in self.reachable(n)

    def event_words(self, label: Callable[[Node], str], start: Optional[int] = None,
                    ends: Optional[Set[int]] = None, max_visits: int = 2, limit: int = 200000,
                    correlate: bool = False) -> Set[str]:
        """Set of event words over all paths start -> ends; each loop head entered at most max_visits
        times per path.  `label` returns '' for non-events.  With correlate=True two `if` nodes whose
        tests are call-free and textually identical take the same branch on one path unless a name
        used by the test was assigned in between (removes the classic infeasible-path false alarm)."""
        start = self.entry if start is None else start
        ends = {self.exit_return} if ends is None else ends
        words: Set[str] = set()
        stack = [(start, "", (), ())]
        seen_states = set()
        budget = limit
        while stack:
            n, w, visits, decisions = stack.pop()
            budget -= 1
            if budget < 0:
                raise AnalysisError("event_words: path budget exceeded")
            node = self.nodes[n]
            lab = label(node)
            if lab:
                w = w + lab
            if n in ends:
                words.add(w)
                continue
            key = (n, w, visits, decisions)
            if key in seen_states:
                continue
            seen_states.add(key)
            dec = dict(decisions)
            if correlate and node.kind == "stmt" and isinstance(node.stmt, (ast.Assign, ast.AugAssign, ast.AnnAssign)):
                tg = node.stmt.targets if isinstance(node.stmt, ast.Assign) else [node.stmt.target]
                written = {norm(t) for t in tg}
                for t in list(dec):
                    if any(wr and wr in t for wr in written):
                        del dec[t]
            forced = None
            ttxt = None
            if correlate and node.kind == "if" and node.expr is not None and not any(isinstance(x, ast.Call) for x in ast.walk(node.expr)):
                ttxt = norm(node.expr)
                forced = dec.get(ttxt)
            vis = dict(visits)
            for b, elab in self.succ[n]:
                if forced is not None and elab in ("true", "false") and elab != forced:
                    continue
                c = vis.get(b, 0)
                if c >= max_visits:
                    continue
                v2 = visits if not self._is_loop_head(b) else tuple(sorted({**vis, b: c + 1}.items()))
                d2 = dec
                if ttxt is not None and elab in ("true", "false"):
                    d2 = {**dec, ttxt: elab}
                stack.append((b, w, v2, tuple(sorted(d2.items()))))
        return words

    def _is_loop_head(self, n):
        return self.nodes[n].kind in ("while", "for")


def build_cfg(func) -> CFG:
    return CFG(func)
