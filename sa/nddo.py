"""First-principles oracle for the one-centre two-electron part of the NDDO Fock matrix (sp basis).

The only physics embedded is the list of non-zero one-centre integrals of an sp shell,
    (ss|ss)=g_ss, (ss|pp)=g_sp, (pp|pp)=g_pp, (pp|p'p')=g_p2, (sp|sp)=h_sp, (pp'|pp')=h_pp=(g_pp-g_p2)/2,
with the 8-fold permutational symmetry of real Coulomb integrals, and the definition of the Fock operator
    F^s_mn = sum_ls Ptot_ls (mn|ls) - sum_ls P^s_ls (ml|ns)           (unrestricted, spin s)
    F_mn   = sum_ls P_ls [(mn|ls) - 1/2 (ml|ns)]                      (restricted)
Everything else is brute-force summation over the four atomic orbitals with symbolic symmetric densities.
"""
from __future__ import annotations

from functools import lru_cache


def symbols():
    import sympy as sp
    return sp.symbols("gss gpp gsp gp2 hsp", real=True)


def integral(m, n, l, s):
    """(mn|ls) for orbitals 0=s, 1..3=p."""
    import sympy as sp
    gss, gpp, gsp, gp2, hsp = symbols()
    hpp = (gpp - gp2) / 2
    a, b = sorted((m, n))
    c, d = sorted((l, s))
    if (a, b) > (c, d):
        a, b, c, d = c, d, a, b
    # charge distributions: ss, sp (one s one p), pp (same p), pq (different p)
    def kind(x, y):
        if x == 0 and y == 0:
            return ("ss",)
        if x == 0:
            return ("sp", y)
        if x == y:
            return ("pp", x)
        return ("pq", x, y)
    k1, k2 = kind(a, b), kind(c, d)
    if k1[0] == "ss" and k2[0] == "ss":
        return gss
    if k1[0] == "ss" and k2[0] == "pp":
        return gsp
    if k1[0] == "pp" and k2[0] == "pp":
        return gpp if k1[1] == k2[1] else gp2
    if k1[0] == "sp" and k2[0] == "sp":
        return hsp if k1[1] == k2[1] else sp.Integer(0)
    if k1[0] == "pq" and k2[0] == "pq":
        return hpp if k1[1:] == k2[1:] else sp.Integer(0)
    return sp.Integer(0)


def density(name):
    """symmetric 4x4 symbolic density"""
    import sympy as sp
    P = [[None] * 4 for _ in range(4)]
    for i in range(4):
        for j in range(i, 4):
            P[i][j] = P[j][i] = sp.Symbol(f"{name}{i}{j}", real=True)
    return P


def fock_restricted(P):
    import sympy as sp
    F = [[sp.Integer(0)] * 4 for _ in range(4)]
    for m in range(4):
        for n in range(4):
            F[m][n] = sp.expand(sum(P[l][s] * (integral(m, n, l, s) - sp.Rational(1, 2) * integral(m, l, n, s)) for l in range(4) for s in range(4)))
    return F


def fock_unrestricted(Pa, Pb):
    """returns F^alpha (F^beta follows by swapping)"""
    import sympy as sp
    F = [[sp.Integer(0)] * 4 for _ in range(4)]
    for m in range(4):
        for n in range(4):
            F[m][n] = sp.expand(sum((Pa[l][s] + Pb[l][s]) * integral(m, n, l, s) - Pa[l][s] * integral(m, l, n, s) for l in range(4) for s in range(4)))
    return F


# ------------------------------------------------------------------------------------------------------------
# code side: interpret a one-centre routine element by element

def scratch_tensor(func):
    """name of the local block tensor that collects the one-centre terms: the value accumulated into the first parameter
    (`F[maskd] += S` / `F[:, maskd] += S`), else the name with the most two-index stores"""
    import ast
    first = func.args.args[0].arg if func.args.args else None
    for st in ast.walk(func):
        if isinstance(st, ast.AugAssign) and isinstance(st.op, ast.Add) and isinstance(st.target, ast.Subscript) and isinstance(st.target.value, ast.Name) \
                and st.target.value.id == first and isinstance(st.value, ast.Name):
            return st.value.id
    count = {}
    for st in ast.walk(func):
        if isinstance(st, ast.Assign) and isinstance(st.targets[0], ast.Subscript) and isinstance(st.targets[0].value, ast.Name) and isinstance(st.targets[0].slice, ast.Tuple):
            count[st.targets[0].value.id] = count.get(st.targets[0].value.id, 0) + 1
    return max(count, key=count.get) if count else None


def density_locals(func, roles):
    """{local name: role} for locals that are atom-diagonal selections of the density parameters.
    roles: {parameter index: role}.  `X = <param>[...mask...]` (possibly with .unsqueeze) inherits the parameter's role;
    `Y = <spin local>[[1, 0]]` is the opposite-spin view ("opp")."""
    import ast
    params = [a.arg for a in func.args.args]
    prole = {params[i]: r for i, r in roles.items() if i < len(params)}
    out = {}
    for st in func.body:
        if not (isinstance(st, ast.Assign) and len(st.targets) == 1 and isinstance(st.targets[0], ast.Name)):
            continue
        v = st.value
        while isinstance(v, ast.Call) and isinstance(v.func, ast.Attribute) and v.func.attr in ("unsqueeze", "contiguous", "clone"):
            v = v.func.value
        if isinstance(v, ast.Subscript) and isinstance(v.value, ast.Name):
            base = v.value.id
            if base in prole and any(isinstance(x, ast.Name) and x.id in params for x in ast.walk(v.slice)):
                out[st.targets[0].id] = prole[base]
            elif base in out and out[base] == "spin" and isinstance(v.slice, ast.List) and [getattr(e, "value", None) for e in v.slice.elts] == [1, 0]:
                out[st.targets[0].id] = "opp"
    return out


def interpret_one_center(mod, func, base_map, scalars, index_vectors=None, scratch="tmp"):
    """Return {(a, b): sympy expr} for every store `tmp[..., a, b] = value` in `func`.

    base_map:  tensor name -> callable(a, b) giving the symbolic matrix element (e.g. 'Pdiag' -> P[a][b])
    scalars:   name -> sympy expr for per-atom scalars known a priori (gss, ...)
    index_vectors: name -> list of ints for names bound to constant index tensors (vectorised stores are expanded)
    Loops over literal tuples are unrolled.  Local scalar definitions are interpreted in order.
    """
    import ast

    from .exprs import NotConst, fold, to_sympy, torch_funcs
    from .loader import AnalysisError, norm

    index_vectors = dict(index_vectors or {})
    out = {}
    env = dict(scalars)

    def run(stmts, ivals):
        for st in stmts:
            if isinstance(st, ast.For):
                try:
                    if isinstance(st.iter, ast.Call) and isinstance(st.iter.func, ast.Name) and st.iter.func.id == "range":
                        from .exprs import int_eval
                        items = list(range(*[int(int_eval(a, dict(ivals))) for a in st.iter.args]))
                    else:
                        items = fold(st.iter)
                except (NotConst, TypeError, AnalysisError):
                    raise AnalysisError(f"one-centre: loop over {norm(st.iter)}")
                for it in items:
                    iv = dict(ivals)
                    if isinstance(st.target, ast.Name):
                        iv[st.target.id] = it
                    else:
                        for t, v in zip(st.target.elts, it):
                            iv[t.id] = v
                    run(st.body, iv)
                continue
            if not isinstance(st, ast.Assign) or len(st.targets) != 1:
                continue
            t = st.targets[0]
            used = {x.id for x in ast.walk(st) if isinstance(x, ast.Name)}
            for k, v in vec_defs.items():
                if k in used:
                    used |= {x.id for x in ast.walk(v) if isinstance(x, ast.Name)}
            used_vecs = sorted(u for u in used if u in index_vectors)
            reps = [dict(ivals)]
            if used_vecs:
                n = len(index_vectors[used_vecs[0]])
                reps = [dict(ivals, **{v: index_vectors[v][k] for v in used_vecs}) for k in range(n)]
            for iv in reps:
                def sub(nd, rec, iv=iv):
                    base = nd.value
                    if not isinstance(base, ast.Name):
                        raise AnalysisError(f"one-centre: subscript {norm(nd)}")
                    sl = nd.slice
                    elts = list(sl.elts) if isinstance(sl, ast.Tuple) else [sl]
                    idx = [e for e in elts if not (isinstance(e, ast.Slice) or (isinstance(e, ast.Constant) and e.value is Ellipsis))]
                    if base.id in base_map and len(idx) == 2:
                        a, b = (fold(e, iv) for e in idx)
                        return base_map[base.id](a, b)
                    if base.id in env and not idx:
                        return env[base.id]
                    raise AnalysisError(f"one-centre: subscript {norm(nd)}")
                funcs = torch_funcs()
                funcs["[]"] = sub
                local_env = dict(env)
                # vectorised local names (e.g. Pp_all = Pdiag[:, i, i]) are re-evaluated per element
                for k, v in list(vec_defs.items()):
                    try:
                        local_env[k] = to_sympy(v, local_env, funcs)
                    except (AnalysisError, NotConst):
                        pass
                if isinstance(t, ast.Name):
                    if used_vecs:
                        vec_defs[t.id] = st.value
                        continue
                    try:
                        env[t.id] = to_sympy(st.value, local_env, funcs)
                    except AnalysisError:
                        env.pop(t.id, None)
                elif isinstance(t, ast.Subscript) and isinstance(t.value, ast.Name) and t.value.id == scratch:
                    sl = t.slice
                    elts = list(sl.elts) if isinstance(sl, ast.Tuple) else [sl]
                    idx = [e for e in elts if not (isinstance(e, ast.Slice) or (isinstance(e, ast.Constant) and e.value is Ellipsis))]
                    a, b = (fold(e, iv) for e in idx[-2:])
                    out[(a, b)] = to_sympy(st.value, local_env, funcs)
    vec_defs = {}
    run(func.body, {})
    return out
