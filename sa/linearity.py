"""Abstract interpretation of polynomial structure in the density matrix.

Lattice (how a value depends on the seed variable P):
    Z   identically zero            C   constant (independent of P)
    H   homogeneous linear in P     A   affine (C + H)          T   anything else (non-linear / unknown)
Sum:  Z+x=x, C+C=C, H+H=H, C+H=A, A+{C,H,A}=A, T absorbs.   Product: Z*x=Z, C*C=C, C*H=H, C*A=A, else T.
Index / reshape / transpose / sum / clone / scatter preserve the class; in-place scatter-adds join by Sum.
Calls to functions of the same module are analysed inter-procedurally with the argument classes.
"""
from __future__ import annotations

import ast
from typing import Dict, List, Optional

from .loader import AnalysisError, Module, call_name, callee_attr, norm

Z, C, H, A, T = "Z", "C", "H", "A", "T"
_ORDER = {Z: 0, C: 1, H: 1, A: 2, T: 3}


def add(a, b):
    if a == T or b == T:
        return T
    if a == Z:
        return b
    if b == Z:
        return a
    if a == b and a in (C, H):
        return a
    return A


def mul(a, b):
    if a == Z or b == Z:
        return Z
    if a == T or b == T:
        return T
    if a == C:
        return b
    if b == C:
        return a
    return T   # H*H, H*A, A*A


PRESERVE_METHODS = {"view", "reshape", "transpose", "clone", "unsqueeze", "squeeze", "sum", "expand", "contiguous", "triu", "tril", "flatten", "permute",
                    "to", "type", "double", "float", "detach", "diagonal", "t", "repeat", "expand_as", "view_as", "reshape_as", "index_select", "gather", "T"}
PRESERVE_FUNCS = {"torch.sum", "torch.transpose", "torch.stack", "torch.cat", "torch.einsum", "torch.triu", "torch.tril", "torch.clone", "torch.diagonal"}
ZERO_FUNCS = {"torch.zeros", "torch.zeros_like", "torch.empty", "torch.empty_like"}


class Linearity:
    def __init__(self, mod: Module, seeds=("P0", "P"), extra_modules: Optional[List[Module]] = None):
        self.mod = mod
        self.mods = [mod] + (extra_modules or [])
        self.seeds = set(seeds)
        self.depth = 0
        self.trace: List[str] = []

    def _find_func(self, name):
        for m in self.mods:
            if name in m.functions:
                return m.functions[name]
        return None

    def func(self, f: ast.FunctionDef, arg_classes: Dict[str, str]) -> str:
        """Class of the returned value of f when called with parameter classes arg_classes (others: C)."""
        self.depth += 1
        if self.depth > 8:
            self.depth -= 1
            return T
        env = {a.arg: arg_classes.get(a.arg, C) for a in f.args.args}
        ret = Z
        seen_ret = False

        def block(stmts):
            nonlocal ret, seen_ret
            for st in stmts:
                if isinstance(st, ast.Assign):
                    v = self.expr(st.value, env)
                    for t in st.targets:
                        self.store(t, v, env)
                elif isinstance(st, ast.AugAssign):
                    v = self.expr(st.value, env)
                    cur = self.expr(st.target, env)
                    if isinstance(st.op, (ast.Add, ast.Sub)):
                        new = add(cur, v)
                    elif isinstance(st.op, ast.Mult):
                        new = mul(cur, v)
                    elif isinstance(st.op, ast.Div):
                        new = cur if v == C else T
                    else:
                        new = T
                    self.store(st.target, new, env, join=False)
                elif isinstance(st, ast.Expr) and isinstance(st.value, ast.Call):
                    c = st.value
                    ca = callee_attr(c)
                    if isinstance(c.func, ast.Attribute) and isinstance(c.func.value, (ast.Name, ast.Subscript)) and ca in ("add_", "sub_", "index_add_", "copy_", "mul_"):
                        base = c.func.value
                        while isinstance(base, ast.Subscript):
                            base = base.value
                        if isinstance(base, ast.Name):
                            src = c.args[-1] if ca != "index_add_" else c.args[2]
                            v = self.expr(src, env)
                            cur = env.get(base.id, C)
                            env[base.id] = mul(cur, v) if ca == "mul_" else (v if ca == "copy_" and not isinstance(c.func.value, ast.Subscript) else add(cur, v))
                elif isinstance(st, (ast.For, ast.While)):
                    # two passes reach the fixpoint of this 5-point lattice for accumulation loops
                    if isinstance(st, ast.For):
                        self.store(st.target, C, env, join=False)
                    block(st.body)
                    block(st.body)
                elif isinstance(st, ast.If):
                    e1 = dict(env)
                    saved = dict(env)
                    block(st.body)
                    e_body = dict(env)
                    env.clear()
                    env.update(saved)
                    block(st.orelse)
                    for k in set(e_body) | set(env):
                        a_, b_ = e_body.get(k, C), env.get(k, C)
                        env[k] = a_ if a_ == b_ else (T if T in (a_, b_) else (add(a_, b_) if {a_, b_} != {Z} else Z) if False else _join(a_, b_))
                elif isinstance(st, ast.With):
                    block(st.body)
                elif isinstance(st, ast.Return):
                    v = self.expr(st.value, env) if st.value is not None else C
                    ret = v if not seen_ret else _join(ret, v)
                    seen_ret = True
        block(f.body)
        self.depth -= 1
        return ret if seen_ret else C

    def store(self, t, v, env, join=True):
        if isinstance(t, ast.Name):
            env[t.id] = v
        elif isinstance(t, (ast.Tuple, ast.List)):
            for e in t.elts:
                self.store(e, v, env, join)
        elif isinstance(t, ast.Subscript):
            base = t
            while isinstance(base, ast.Subscript):
                base = base.value
            if isinstance(base, ast.Name):
                cur = env.get(base.id, C)
                # element store into a container: container becomes the join (sum-like) of old and new content
                env[base.id] = _join(cur, v) if join else v

    def expr(self, e, env) -> str:
        if e is None or isinstance(e, ast.Constant):
            return C
        if isinstance(e, ast.Name):
            return env.get(e.id, C)
        if isinstance(e, ast.Attribute):
            if e.attr in ("shape", "dtype", "device"):
                return C
            return self.expr(e.value, env)
        if isinstance(e, ast.Subscript):
            return self.expr(e.value, env)
        if isinstance(e, ast.UnaryOp):
            return self.expr(e.operand, env)
        if isinstance(e, ast.BinOp):
            a, b = self.expr(e.left, env), self.expr(e.right, env)
            if isinstance(e.op, (ast.Add, ast.Sub)):
                return add(a, b)
            if isinstance(e.op, (ast.Mult, ast.MatMult)):
                return mul(a, b)
            if isinstance(e.op, ast.Div):
                return a if b == C else (Z if a == Z else T)
            if isinstance(e.op, ast.Pow):
                return a if (b == C and a in (Z, C)) else (C if a == C and b == C else T)
            return T if T in (a, b) or a not in (Z, C) or b not in (Z, C) else C
        if isinstance(e, (ast.Tuple, ast.List)):
            out = Z
            for x in e.elts:
                out = _join(out, self.expr(x, env))
            return out
        if isinstance(e, ast.IfExp):
            return _join(self.expr(e.body, env), self.expr(e.orelse, env))
        if isinstance(e, ast.Compare):
            return C
        if isinstance(e, ast.BoolOp):
            out = Z
            for v in e.values:
                out = _join(out, self.expr(v, env))
            return out
        if isinstance(e, ast.Call):
            cn = call_name(e) or ""
            ca = callee_attr(e)
            if cn in ZERO_FUNCS:
                return Z
            if isinstance(e.func, ast.Attribute) and ca in PRESERVE_METHODS and not (isinstance(e.func.value, ast.Name) and e.func.value.id == "torch"):
                return self.expr(e.func.value, env)
            if cn in PRESERVE_FUNCS:
                out = Z
                for a in e.args:
                    out = _join(out, self.expr(a, env)) if cn in ("torch.stack", "torch.cat") else add(out, self.expr(a, env)) if False else _join(out, self.expr(a, env))
                return out
            if cn == "torch.einsum":
                out = C
                for a in e.args[1:]:
                    out = mul(out, self.expr(a, env))
                return out
            if isinstance(e.func, ast.Name):
                f = self._find_func(e.func.id)
                if f is not None:
                    ps = [a.arg for a in f.args.args]
                    ac = {}
                    for i, a in enumerate(e.args):
                        if i < len(ps):
                            ac[ps[i]] = self.expr(a, env)
                    for k in e.keywords:
                        if k.arg:
                            ac[k.arg] = self.expr(k.value, env)
                    return self.func(f, ac)
            # unknown call: constant iff all arguments are constant
            args = [self.expr(a, env) for a in e.args] + [self.expr(k.value, env) for k in e.keywords]
            if isinstance(e.func, ast.Attribute):
                args.append(self.expr(e.func.value, env))
            if all(a in (Z, C) for a in args):
                return C
            return T
        return T


def _join(a, b):
    """Least upper bound for control-flow merges / container contents (not a sum)."""
    if a == b:
        return a
    if T in (a, b):
        return T
    if a == Z:
        return b
    if b == Z:
        return a
    return A
